import HpxVerif.Lemmas.EnvelopeReal
import Mathlib.Analysis.SpecialFunctions.Trigonometric.Bounds

/-!
# C16 — `largest_center_to_vertex_distance` dominates the true distances in the equatorial region, over ℝ (part 2)

`δ = 1/2^d`.  The three anchor values of `ConstantsC2V::new(d)` in the equatorial region are
`dMax3 = 4/π·δ` (equator), `dMin2 = 4/π·δ·cos(lsc)` (at `lsc = LAT_OF_SQUARE_CELL`) and
`dMax2 = tl − arcsin((1 − δ)·2/3) = dN δ (1 − δ)` (the distance centre → north vertex of the highest cell whose
north vertex is still in the equatorial region).  Since the code uses `4/π` where its comments say `π/4`,
`dMax3 > dMin2 > dMax2`: the parabola goes down from `dMax3` to `dMin2` on `[0, lsc]`, the line goes down from `dMin2` to
`dMax2` on `[lsc, tl]`.  Both stay above `dMax2`, and `dMax2` dominates the three true distances of every cell whose
four vertices are in the equatorial region:
* `dN δ y ≤ dN δ (1 − δ)` (`dN` increases with `y`: convexity of `arcsin`), `dS ≤ dN`;
* `dE δ y ≤ cos(lat)·δ·π/4`, which is `≤ π/4·δ < dMin2` below `lsc`, and `≤ cos(lsc)·δ·π/4 ≤ dMax2` above `lsc`
  (`cos²(lsc) = 8/(3π)` and the mean-value inequality for `sin` between `arcsin((1−δ)·2/3)` and `tl`).

Main results: `envelope_dominates_eqr` (closed forms), `largestC2V_dominates_eqr` (the model function),
`envelope_equator_ratio` (the bound is `16/π² ≈ 1.62` times the true value on the equator: not tight).
-/

namespace Hpx.EnvelopeReal
open Hpx Hpx.C2V Hpx.C2VReal Hpx.Proj Real

/-- `cos(lsc) = √(8/(3π))` written as in the crate -/
noncomputable def cosLsc : ℝ := Real.sqrt (2 / 3 * (4 / π))

theorem cosLsc_sq : cosLsc * cosLsc = 8 / (3 * π) := by
  have hpi := Real.pi_pos
  unfold cosLsc
  rw [Real.mul_self_sqrt (by positivity)]; field_simp; ring

theorem cosLsc_ge : 92 / 100 ≤ cosLsc := by
  have hpi := Real.pi_pos
  have hpi2 := Real.pi_lt_d2
  norm_num at hpi2
  apply Real.le_sqrt_of_sq_le
  rw [show (2 : ℝ) / 3 * (4 / π) = 8 / (3 * π) by field_simp; ring, le_div_iff₀ (by positivity)]
  nlinarith

theorem cosLsc_pos : 0 < cosLsc := by linarith [cosLsc_ge]
theorem cosLsc_lt_one : cosLsc < 1 := lsc_arg_lt_one

theorem cos_lsc : cos lsc = cosLsc := by
  rw [r_lsc]
  have h := cosLsc_pos
  unfold cosLsc at h ⊢
  exact Real.cos_arccos (by linarith) lsc_arg_lt_one.le

/-- anchor at `lsc` -/
noncomputable def dMin2 (δ : ℝ) : ℝ := 4 / π * δ * cosLsc
/-- anchor at `tl` -/
noncomputable def dMax2 (δ : ℝ) : ℝ := tl - Real.arcsin ((1 - δ) * (2 / 3))
/-- anchor on the equator -/
noncomputable def dMax3 (δ : ℝ) : ℝ := 4 / π * δ

theorem dMax2_eq_dN (δ : ℝ) : dMax2 δ = dN δ (1 - δ) := by
  unfold dMax2 dN
  rw [show (1 - δ + δ) * (2 / 3) = (2 : ℝ) / 3 by ring]; rfl

/-! ## the constants of `ConstantsC2V::new(d)` -/

theorem new_interceptEqr_eq (d : Nat) :
    (Csts.new d : Csts ℝ).interceptEqr = dMin2 (1 / 2 ^ d) - (Csts.new d : Csts ℝ).slopeEqr * lsc := by
  show (Num.fourOverPi : ℝ) * (Num.one / Num.ofNat (1 <<< d)) * Num.cosLatOfSquareCell -
      (Csts.new d : Csts ℝ).slopeEqr * Num.latOfSquareCell = _
  rw [r_nside, r_one, r_fourOverPi, r_cosLsc]; rfl

theorem new_slopeEqr_eq' (d : Nat) :
    (Csts.new d : Csts ℝ).slopeEqr = (dMax2 (1 / 2 ^ d) - dMin2 (1 / 2 ^ d)) / (tl - lsc) := new_slopeEqr_eq d

theorem new_coeffCstEqr_eq (d : Nat) : (Csts.new d : Csts ℝ).coeffCstEqr = dMax3 (1 / 2 ^ d) := by
  show (Num.fourOverPi : ℝ) * (Num.one / Num.ofNat (1 <<< d)) = _
  rw [r_nside, r_one, r_fourOverPi]; rfl

/-- the line takes the value `dMin2` at `lsc` … -/
theorem new_topEnv_lsc (d : Nat) : topEnv (Csts.new d : Csts ℝ) lsc = dMin2 (1 / 2 ^ d) := by
  unfold topEnv; rw [new_interceptEqr_eq]; ring

/-- … and `dMax2` at `tl` -/
theorem new_topEnv_tl (d : Nat) : topEnv (Csts.new d : Csts ℝ) tl = dMax2 (1 / 2 ^ d) := by
  have h : tl - lsc ≠ 0 := by linarith [lsc_lt_tl]
  unfold topEnv
  rw [new_interceptEqr_eq, new_slopeEqr_eq']
  field_simp
  ring

/-- the line is decreasing: on `x ≤ tl` it stays above its value `dMax2` at `tl` -/
theorem new_topEnv_ge (d : Nat) (x : ℝ) (hx : x ≤ tl) : dMax2 (1 / 2 ^ d) ≤ topEnv (Csts.new d : Csts ℝ) x := by
  rw [← new_topEnv_tl]
  have := new_slopeEqr_neg d
  unfold topEnv
  nlinarith

/-- the parabola is decreasing on `[0, lsc]`: it stays above its value `dMin2` at `lsc` -/
theorem new_botEnv_ge (d : Nat) (x : ℝ) (h0 : 0 ≤ x) (hx : x ≤ lsc) : dMin2 (1 / 2 ^ d) ≤ botEnv (Csts.new d : Csts ℝ) x := by
  rw [← new_topEnv_lsc, new_continuous_at_lsc]
  have := new_coeffX2Eqr_neg d
  have hxx : x * x ≤ lsc * lsc := mul_le_mul hx hx h0 lsc_pos.le
  unfold botEnv
  nlinarith

/-- the value on the equator -/
theorem new_botEnv_zero (d : Nat) : botEnv (Csts.new d : Csts ℝ) 0 = dMax3 (1 / 2 ^ d) := by
  unfold botEnv; rw [new_coeffCstEqr_eq]; ring

/-! ## numerical facts -/

theorem le_arcsin (x : ℝ) (h0 : 0 ≤ x) (h1 : x ≤ 1) : x ≤ Real.arcsin x := by
  have := Real.sin_le (Real.arcsin_nonneg.mpr h0)
  rwa [Real.sin_arcsin (by linarith) h1] at this

theorem cos_half_le : cos (1 / 2) ≤ 88 / 100 := by
  have h := Real.cos_bound (x := 1 / 2) (by rw [abs_of_pos] <;> norm_num)
  rw [abs_le] at h
  have e : |(1 / 2 : ℝ)| = 1 / 2 := abs_of_pos (by norm_num)
  rw [e] at h
  norm_num at h
  linarith [h.2]

/-- **the key inequality above `lsc`**: `cos(lsc)·δ·π/4 ≤ dMax2 δ` for `0 ≤ δ ≤ 1/2` -/
theorem cosLsc_step_le_dMax2 (δ : ℝ) (h0 : 0 ≤ δ) (h1 : δ ≤ 1 / 2) : cosLsc * (δ * (π / 4)) ≤ dMax2 δ := by
  have hpi := Real.pi_pos
  have hpi4 := Real.pi_le_four
  unfold dMax2
  show _ ≤ Real.arcsin (2 / 3) - _
  set a := Real.arcsin (2 / 3) with ha
  set b := Real.arcsin ((1 - δ) * (2 / 3)) with hb
  have hy0 : 1 / 3 ≤ (1 - δ) * (2 / 3) := by nlinarith
  have hy1 : (1 - δ) * (2 / 3) ≤ 2 / 3 := by nlinarith
  have hb0 : 1 / 3 ≤ b := (le_arcsin (1 / 3) (by norm_num) (by norm_num)).trans (Real.arcsin_le_arcsin hy0)
  have ha0 : 2 / 3 ≤ a := le_arcsin (2 / 3) (by norm_num) (by norm_num)
  have hba : b ≤ a := Real.arcsin_le_arcsin hy1
  have ha2 : a ≤ π / 2 := Real.arcsin_le_pi_div_two _
  have hsa : sin a = 2 / 3 := Real.sin_arcsin (by norm_num) (by norm_num)
  have hsb : sin b = (1 - δ) * (2 / 3) := Real.sin_arcsin (by linarith) (by linarith)
  have hkey : sin a - sin b = 2 * sin ((a - b) / 2) * cos ((a + b) / 2) := Real.sin_sub_sin _ _
  rw [hsa, hsb] at hkey
  have hc : cos ((a + b) / 2) ≤ cosLsc :=
    (Real.cos_le_cos_of_nonneg_of_le_pi (by norm_num) (by linarith) (by linarith)).trans
      (cos_half_le.trans (by linarith [cosLsc_ge]))
  have hc0 : 0 ≤ cos ((a + b) / 2) :=
    Real.cos_nonneg_of_neg_pi_div_two_le_of_le (by linarith) (by linarith)
  have hs : sin ((a - b) / 2) ≤ (a - b) / 2 := Real.sin_le (by linarith)
  have hs0 : 0 ≤ sin ((a - b) / 2) := Real.sin_nonneg_of_nonneg_of_le_pi (by linarith) (by linarith)
  have hprod : sin ((a - b) / 2) * cos ((a + b) / 2) ≤ (a - b) / 2 * cosLsc :=
    mul_le_mul hs hc hc0 (by linarith)
  -- `(2/3)·δ ≤ (a − b)·cosLsc` and `cosLsc² = 8/(3π)`
  have h2 : 2 / 3 * δ ≤ (a - b) * cosLsc := by nlinarith
  have hsq := cosLsc_sq
  have hcp := cosLsc_pos
  have h3 : cosLsc * (cosLsc * (δ * (π / 4))) ≤ cosLsc * (a - b) := by
    have : cosLsc * (cosLsc * (δ * (π / 4))) = 2 / 3 * δ := by
      rw [← mul_assoc, hsq]; field_simp; ring
    rw [this]; linarith
  exact le_of_mul_le_mul_left h3 hcp

theorem dMax2_lt (δ : ℝ) (h0 : 0 < δ) (h1 : δ ≤ 1) : dMax2 δ < 97 / 100 * δ := arcsin_diff_bound δ h0 h1

theorem dMin2_gt (δ : ℝ) (h0 : 0 < δ) : 116 / 100 * δ < dMin2 δ := by
  have := mul_lt_mul_of_pos_right dmin2_coeff_bound h0
  unfold dMin2 cosLsc
  linarith

/-! ## the three true distances are below the anchors -/

/-- northern hemisphere, four vertices in the equatorial region (`y + δ ≤ 1`): `dN`, `dS ≤ dMax2` -/
theorem dN_le_dMax2 (δ y : ℝ) (hδ : 0 ≤ δ) (hy0 : 0 ≤ y) (hy1 : y + δ ≤ 1) : dN δ y ≤ dMax2 δ := by
  rw [dMax2_eq_dN]
  exact dN_mono δ y (1 - δ) hδ hy0 (by linarith) (by linarith)

theorem dS_le_dMax2 (δ y : ℝ) (hδ : 0 ≤ δ) (hy0 : 0 ≤ y) (hy1 : y + δ ≤ 1) : dS δ y ≤ dMax2 δ :=
  (dS_le_dN δ y hδ hy0 (by linarith)).trans (dN_le_dMax2 δ y hδ hy0 hy1)

/-- above `lsc`: `dE ≤ dMax2` -/
theorem dE_le_dMax2 (δ y : ℝ) (hδ0 : 0 ≤ δ) (hδ1 : δ ≤ 1 / 2) (hlat : lsc ≤ latOf y) :
    dE δ y ≤ dMax2 δ := by
  have hpi := Real.pi_pos
  refine (dE_le δ y hδ0 (by linarith)).trans (le_trans ?_ (cosLsc_step_le_dMax2 δ hδ0 hδ1))
  have hc : cos (latOf y) ≤ cosLsc := by
    rw [← cos_lsc]
    exact Real.cos_le_cos_of_nonneg_of_le_pi lsc_pos.le (by linarith [latOf_le y]) hlat
  exact mul_le_mul_of_nonneg_right hc (by positivity)

/-- everywhere: `dE ≤ δ·π/4 < dMin2` -/
theorem dE_le_dMin2 (δ y : ℝ) (hδ0 : 0 < δ) (hδ1 : δ ≤ 1) : dE δ y ≤ dMin2 δ := by
  have hpi := Real.pi_pos
  have hpi4 := Real.pi_le_four
  have h1 := dE_le δ y hδ0.le hδ1
  have h2 : cos (latOf y) * (δ * (π / 4)) ≤ 1 * (δ * (π / 4)) :=
    mul_le_mul_of_nonneg_right (Real.cos_le_one _) (by positivity)
  have h3 := dMin2_gt δ hδ0
  nlinarith

theorem dMax2_le_dMin2 (δ : ℝ) (h0 : 0 < δ) (h1 : δ ≤ 1) : dMax2 δ ≤ dMin2 δ := by
  have := dMax2_lt δ h0 h1
  have := dMin2_gt δ h0
  linarith

/-! ## the envelope dominates -/

theorem half_pow_range (d : Nat) (hd : 1 ≤ d) : 0 < (1 : ℝ) / 2 ^ d ∧ (1 : ℝ) / 2 ^ d ≤ 1 / 2 := by
  refine ⟨(distCw_range d).1, ?_⟩
  have : (2 : ℝ) ^ 1 ≤ 2 ^ d := pow_le_pow_right₀ (by norm_num) hd
  rw [div_le_div_iff₀ (by positivity) (by norm_num)]; linarith

theorem abs_latOf (y : ℝ) : |latOf y| = latOf |y| := by
  rcases le_or_gt 0 y with h | h
  · rw [abs_of_nonneg h, abs_of_nonneg (latOf_nonneg y h)]
  · rw [abs_of_neg h, latOf_neg, abs_of_nonpos]
    have := latOf_nonneg (-y) (by linarith)
    rw [latOf_neg] at this; linarith

theorem latOf_lt_tl (y : ℝ) (h0 : 0 ≤ y) (h1 : y < 1) : latOf y < tl := by
  unfold latOf
  show _ < Real.arcsin (2 / 3)
  exact Real.arcsin_lt_arcsin (by nlinarith) (by nlinarith) (by norm_num)

/-- northern hemisphere: the value of the envelope at the latitude of the centre dominates `dMax2`, and `dE` -/
theorem c2v_ge_north (d : Nat) (hd : 1 ≤ d) (lon y : ℝ) (hy0 : 0 ≤ y) (hy1 : y + 1 / 2 ^ d ≤ 1) :
    dMax2 (1 / 2 ^ d) ≤ c2v (Csts.new d) lon (latOf y) ∧ dE (1 / 2 ^ d) y ≤ c2v (Csts.new d) lon (latOf y) := by
  obtain ⟨hδ0, hδ1⟩ := half_pow_range d hd
  have hlat0 := latOf_nonneg y hy0
  have hlt : latOf y < tl := latOf_lt_tl y hy0 (by linarith)
  unfold c2v
  rw [abs_of_nonneg hlat0, if_neg (not_le.mpr hlt)]
  by_cases h : lsc ≤ latOf y
  · rw [if_pos h]
    have := new_topEnv_ge d (latOf y) hlt.le
    exact ⟨this, (dE_le_dMax2 _ y hδ0.le hδ1 h).trans this⟩
  · rw [if_neg h]
    have := new_botEnv_ge d (latOf y) hlat0 (not_le.mp h).le
    exact ⟨(dMax2_le_dMin2 _ hδ0 (by linarith)).trans this, (dE_le_dMin2 _ y hδ0 (by linarith)).trans this⟩

/-- **`envelope_dominates_eqr`** (ℝ, every depth `d ≥ 1`, `δ = 1/2^d`): for every plane ordinate `y` with `|y| + δ ≤ 1`
    (the centre and the four vertices of the cell are in the equatorial region), every longitude `lon`, and
    `lat = arcsin(2y/3)` the latitude of the centre, the value `c2v (ConstantsC2V::new(d)) lon lat` of
    `largest_center_to_vertex_distance` is at least the three true centre-to-vertex distances
    (`true_c2v_eqr`): `dN` (north), `dS` (south), `dE` (east = west). -/
theorem envelope_dominates_eqr (d : Nat) (hd : 1 ≤ d) (lon y : ℝ) (hy : |y| + 1 / 2 ^ d ≤ 1) :
    max (dN (1 / 2 ^ d) y) (max (dS (1 / 2 ^ d) y) (dE (1 / 2 ^ d) y)) ≤ c2v (Csts.new d) lon (latOf y) := by
  obtain ⟨hδ0, hδ1⟩ := half_pow_range d hd
  have hc : c2v (Csts.new d) lon (latOf y) = c2v (Csts.new d) lon (latOf |y|) := by
    unfold c2v; rw [abs_latOf, abs_of_nonneg (latOf_nonneg |y| (abs_nonneg y))]
  obtain ⟨h1, h2⟩ := c2v_ge_north d hd lon |y| (abs_nonneg y) hy
  rw [hc]
  have hN := dN_le_dMax2 (1 / 2 ^ d) |y| hδ0.le (abs_nonneg y) hy
  have hS := dS_le_dMax2 (1 / 2 ^ d) |y| hδ0.le (abs_nonneg y) hy
  rcases le_or_gt 0 y with h | h
  · rw [abs_of_nonneg h] at *
    exact max_le (hN.trans h1) (max_le (hS.trans h1) h2)
  · rw [abs_of_neg h] at *
    rw [dN_neg] at hN
    rw [dS_neg] at hS
    rw [dE_neg] at h2
    exact max_le (hS.trans h1) (max_le (hN.trans h1) h2)

/-- the same for the model function (release profile), `1 ≤ depth ≤ 29` -/
theorem largestC2V_dominates_eqr (d : Nat) (hd1 : 1 ≤ d) (hd2 : d ≤ 29) (lon y : ℝ) (hy : |y| + 1 / 2 ^ d ≤ 1) :
    ∃ v, largestC2V false d lon (latOf y) = some v ∧
      dN (1 / 2 ^ d) y ≤ v ∧ dS (1 / 2 ^ d) y ≤ v ∧ dE (1 / 2 ^ d) y ≤ v := by
  refine ⟨c2v (Csts.new d) lon (latOf y), ?_, ?_⟩
  · rw [c2v_region_choice, if_neg (by omega), if_neg (by omega)]
  · have := envelope_dominates_eqr d hd1 lon y hy
    simp only [max_le_iff] at this
    exact ⟨this.1, this.2.1, this.2.2⟩

/-! ## the envelope is not tight -/

/-- on the equator the envelope is `4/π·δ` while the true largest distance is `dE = π/4·δ`
    (`dN = dS = arcsin(2δ/3) ≤ dE`): the ratio is `16/π² ≈ 1.62` at every depth.
    (The comments of `ConstantsC2V::new` say `d_max = pi/4 * 1/nside`; the code uses `FOUR_OVER_PI`.) -/
theorem envelope_equator_ratio (d : Nat) (lon : ℝ) :
    c2v (Csts.new d) lon (latOf 0) = 16 / π ^ 2 * dE (1 / 2 ^ d) 0 := by
  have hpi := Real.pi_pos
  obtain ⟨h0, h1⟩ := distCw_range d
  have hl : latOf 0 = 0 := by unfold latOf; simp
  unfold c2v
  rw [hl, abs_zero, if_neg (not_le.mpr tl_pos), if_neg (not_le.mpr lsc_pos), new_botEnv_zero, dE_equator _ h0.le h1]
  unfold dMax3
  field_simp
  ring

/-! ## examples -/

/-- depth 3, `y = 5/8` -/
example : |(5 / 8 : ℝ)| + 1 / 2 ^ 3 ≤ 1 := by rw [abs_of_pos (by norm_num : (0 : ℝ) < 5 / 8)]; norm_num

end Hpx.EnvelopeReal

#print axioms Hpx.EnvelopeReal.envelope_dominates_eqr
#print axioms Hpx.EnvelopeReal.largestC2V_dominates_eqr
#print axioms Hpx.EnvelopeReal.envelope_equator_ratio
