import HpxVerif.Lemmas.RingBij3

/-!
# NESTED <-> RING conversion: the ring-index function actually used (`f64` estimate + correction loops)
-/

namespace Hpx.RingBij
open Hpx Hpx.Layer

/-- the correction loops reach the exact ring index from any estimate within `fuel` of it (as in `Props/C10`) -/
theorem polar_ring_index_correct (fuel x n t : Nat) (ht1 : tri4 t ≤ x) (ht2 : x < tri4 (t + 1))
    (hd : n ≤ t + fuel ∧ t ≤ n + fuel) : polarRingIndexFrom fuel x n = t := by
  induction fuel generalizing n with
  | zero =>
    have : n = t := by omega
    simp [polarRingIndexFrom, this]
  | succ f ih =>
    simp only [polarRingIndexFrom]
    split
    · have : t < n := tri4_lt_of_lt (by omega)
      exact ih (n - 1) (by omega)
    · split
      · have : n + 1 < t + 1 := tri4_lt_of_lt (by omega)
        exact ih (n + 1) (by omega)
      · have h3 : n < t + 1 := tri4_lt_of_lt (by omega)
        have h4 : t < n + 1 := tri4_lt_of_lt (by omega)
        omega

theorem ring_index_exists (x : Nat) : ∃ t, tri4 t ≤ x ∧ x < tri4 (t + 1) := by
  induction x with
  | zero => exact ⟨0, by simp [tri4], by simp [tri4]⟩
  | succ x ih =>
    obtain ⟨t, h1, h2⟩ := ih
    by_cases h : x + 1 < tri4 (t + 1)
    · exact ⟨t, by omega, h⟩
    · exact ⟨t + 1, by omega, by rw [tri4_succ (t + 1)]; omega⟩

/-- a computable exact ring-index function (linear search from 0) -/
def exactRI (x : Nat) : Nat := polarRingIndexFrom (x + 1) x 0

theorem exactRI_exact : ExactRI exactRI := by
  intro x
  obtain ⟨t, h1, h2⟩ := ring_index_exists x
  have ht : t ≤ x := by rw [tri4_eq] at h1; omega
  have : exactRI x = t := polar_ring_index_correct (x + 1) x 0 t h1 h2 (by omega)
  rw [this]; exact ⟨h1, h2⟩

/-- the ring-index function `from_ring` really uses: float estimate, then at most 4 integer correction steps -/
def realRI (x : Nat) : Nat := polarRingIndexFrom 4 x (polarRingApprox x)

/-- **hypothesis on `f64::sqrt`** (not provable generically here; monitored by the differential check): below `B`, the
    float estimate of the ring index is within 4 of the exact one -/
def ApproxOK (B : Nat) : Prop :=
  ∀ x t, x < B → tri4 t ≤ x → x < tri4 (t + 1) → polarRingApprox x ≤ t + 4 ∧ t ≤ polarRingApprox x + 4

theorem ApproxOK.mono {B B' : Nat} (h : ApproxOK B) (hle : B' ≤ B) : ApproxOK B' :=
  fun x t hx h1 h2 => h x t (by omega) h1 h2

theorem realRI_eq {B : Nat} (h : ApproxOK B) (x : Nat) (hx : x < B) : realRI x = exactRI x := by
  obtain ⟨h1, h2⟩ := exactRI_exact x
  exact polar_ring_index_correct 4 x _ _ h1 h2 (h x _ hx h1 h2)

/-- `from_ring` consults the ring-index function only below `firstHashInEqr d` -/
theorem fromRingParts_congr (d : Nat) (RI1 RI2 : Nat → Nat) (h : ∀ x, x < firstHashInEqr d → RI1 x = RI2 x)
    (r : Nat) : fromRingParts d RI1 r = fromRingParts d RI2 r := by
  unfold fromRingParts
  dsimp only
  split
  · rfl
  split
  · rw [h _ ‹_›]
  · split
    · split
      · rfl
      · rw [h _ (by omega)]
    · rfl

theorem fe_lt (d : Nat) (hd : d ≤ 29) : firstHashInEqr d < 2 ^ 60 := by
  rw [fe_eq, ← four_pow_eq, nside_eq]
  have h1 : 4 ^ d ≤ 4 ^ 29 := Nat.pow_le_pow_right (by decide) hd
  have h2 : 2 ^ d ≤ 2 ^ 29 := Nat.pow_le_pow_right (by decide) hd
  omega

/-- **(5)** the round trip (2) for the `from_ring` actually used (float estimate + correction loops) -/
theorem fromRing_toRing_parts_real (d : Nat) (hd : d ≤ 32) (hA : ApproxOK (firstHashInEqr d)) (p : HashParts)
    (hv : Valid d p) (r : Nat) (hr : toRingParts d p = some r) : fromRingParts d realRI r = some p := by
  rw [fromRingParts_congr d realRI exactRI (fun x hx => realRI_eq hA x hx)]
  exact fromRing_toRing_parts d exactRI exactRI_exact hd p hv r hr

/-- **(5)** the round trip (3) for the `from_ring` actually used -/
theorem toRing_fromRing_parts_real (d : Nat) (hd : d ≤ 32) (hA : ApproxOK (firstHashInEqr d)) (r : Nat)
    (hr : r < 12 * 4 ^ d) : ∃ p, fromRingParts d realRI r = some p ∧ Valid d p ∧ toRingParts d p = some r := by
  rw [fromRingParts_congr d realRI exactRI (fun x hx => realRI_eq hA x hx)]
  exact toRing_fromRing_parts d exactRI exactRI_exact hd r hr

/-- the hypothesis in the form "`f64` estimate within 4 below `2^60`" covers all depths `≤ 29` -/
theorem approxOK_of_lt_2_60 (h : ApproxOK (2 ^ 60)) (d : Nat) (hd : d ≤ 29) : ApproxOK (firstHashInEqr d) :=
  h.mono (Nat.le_of_lt (fe_lt d hd))

/-- the `f64` hypothesis holds up to depth 3 (kernel evaluation of Lean's IEEE `Float.sqrt`) -/
theorem approxOK_depth3 : ApproxOK (firstHashInEqr 3) := by
  intro x t hx h1 h2
  have e : exactRI x = t := exactRI_exact.eq h1 h2
  subst e
  have key : ∀ x, x < firstHashInEqr 3 →
      polarRingApprox x ≤ exactRI x + 4 ∧ exactRI x ≤ polarRingApprox x + 4 := by decide +kernel
  exact key x hx

/-- the hypotheses of (2), (3), (4) are satisfiable: base cell 4, `(i, j) = (1, 2)` at depth 2 (the wrap-around case
    `d0h = 4 ∧ i < j`) is RING cell 103, centre `(X, Y) = (31, 0)` -/
example : Valid 2 ⟨4, 1, 2⟩ ∧ toRingParts 2 ⟨4, 1, 2⟩ = some 103 ∧ fromRingParts 2 exactRI 103 = some ⟨4, 1, 2⟩ ∧
    fromRingParts 2 realRI 103 = some ⟨4, 1, 2⟩ ∧ centerXY 2 ⟨4, 1, 2⟩ = (31, 0) := by decide +kernel

/-- … and a polar-cap instance: base cell 1, `(i, j) = (3, 2)` at depth 2 is RING cell 7 of ring 1 -/
example : Valid 2 ⟨1, 3, 2⟩ ∧ toRingParts 2 ⟨1, 3, 2⟩ = some 7 ∧ fromRingParts 2 realRI 7 = some ⟨1, 3, 2⟩ ∧
    centerXY 2 ⟨1, 3, 2⟩ = (13, 6) := by decide +kernel

end Hpx.RingBij
