/-
C10, last clause: for `nside = 2^depth` the RING-scheme centre of cell `r` (`ring::center_of_projected_cell(nside, r)`,
`Model/Ring.lean`) coincides with the NESTED centre of `from_ring(r)` (`nested::center_of_projected_cell(depth, ·)`,
`Model/Hash.lean`): both schemes describe the same cells.

The file connects three finished developments:
* `RingBij*` : NESTED <-> RING on parts / cell numbers (`toRing_spec`, `centerXY_mk`, `toRing_fromRing`, …),
* `RingReal` : closed form of the RING centre for every `nside` over ℝ (`center_eq`),
* `CellReal` : closed form of the NESTED centre over ℝ (`center_plane_spec`).

Part 1 (integers): the two descriptions of the rings agree — `RingBij.ringStart = RingReal.ringStart`,
`RingBij.ringLen = 4·RingReal.perFacet` (both number the rings from the north pole, 0-based; they only split the
three regions at different rings: `RingBij` puts the rings `n − 1` and `3n − 1` in the caps, `RingReal` in the
equatorial band), and the abscissa / ordinate of `RingReal` at `(ringOf p, inRing p)` are `xNat p`, `2n − 1 − ringOf p`,
i.e. `Layer.centerXY d p`.
Part 2 (reals): the centres agree, on parts and on cell numbers, and hence so do `center` (same `unproj`).
-/
import HpxVerif.Lemmas.RingBij5
import HpxVerif.Lemmas.RingReal
import HpxVerif.Lemmas.CellReal

namespace Hpx.RingCenter
open Hpx Hpx.Layer

/-! ## Part 1: the two integer descriptions of the rings agree -/

theorem tri4_same : Layer.tri4 = Ring.tri4 := rfl

/-- same first cell of every ring (`t = 4n − 1` included: the total `12 n²`; the two definitions agree beyond too) -/
theorem ringStart_same (n t : Nat) (hn : 1 ≤ n) :
    RingBij.ringStart n t = RingReal.ringStart n t := by
  have hsq := RingReal.tri4_pred_two n hn
  have e12 : 12 * n * n = 12 * (n * n) := by rw [Nat.mul_assoc]
  unfold RingBij.ringStart RingReal.ringStart
  rw [tri4_same, e12]
  by_cases c1 : t + 1 < n
  · rw [if_pos (by omega), if_pos c1]
  by_cases c2 : t + 1 = n
  · rw [if_pos (by omega), if_neg c1, if_pos (by omega)]
    have e1 : t + 1 - n = 0 := by omega
    have e2 : t = n - 1 := by omega
    rw [e1, Nat.zero_mul, Nat.add_zero, e2]
  by_cases c3 : t + 1 < 3 * n
  · rw [if_neg (by omega), if_pos c3, if_neg c1, if_pos (by omega)]
    have e1 : t + 1 - n = (t - n) + 1 := by omega
    have e2 : (t - n) * (4 * n) = 4 * ((t - n) * n) := by
      rw [Nat.mul_comm 4 n, ← Nat.mul_assoc, Nat.mul_comm]
    rw [e1, Nat.add_mul, e2]
    omega
  by_cases c4 : t + 1 = 3 * n
  · rw [if_neg (by omega), if_neg c3, if_neg c1, if_pos (by omega)]
    have e1 : 4 * n - 1 - t = n := by omega
    have e2 : t + 1 - n = 2 * n := by omega
    have e3 : 2 * n * (4 * n) = 8 * (n * n) := by
      rw [Nat.mul_assoc, Nat.mul_left_comm n 4 n, ← Nat.mul_assoc]
    have hs : Ring.tri4 n = Ring.tri4 (n - 1) + 4 * n := by
      have := RingReal.tri4_succ (n - 1)
      rw [show n - 1 + 1 = n by omega] at this
      exact this
    rw [e1, e2, e3, hs]
    omega
  · rw [if_neg (by omega), if_neg c3, if_neg c1, if_neg (by omega)]

/-- same number of cells in every ring -/
theorem ringLen_same (n t : Nat) (hn : 1 ≤ n) :
    RingBij.ringLen n t = 4 * RingReal.perFacet n t := by
  unfold RingBij.ringLen RingReal.perFacet
  split_ifs <;> omega

/-- cells per facet of the ring of a polar-cap-style ring of `RingBij` (`t < n`, the ring `n − 1` included) -/
theorem perFacet_north {n t : Nat} (ht : t < n) : RingReal.perFacet n t = t + 1 := by
  unfold RingReal.perFacet
  split_ifs <;> omega

theorem cxOff_north {n t : Nat} (ht : t < n) : RingReal.cxOff n t = n - t := by
  unfold RingReal.cxOff
  split_ifs <;> omega

theorem perFacet_south {n t : Nat} (h1 : 3 * n ≤ t + 1) (h2 : t + 1 < 4 * n) :
    RingReal.perFacet n t = 4 * n - 1 - t := by
  unfold RingReal.perFacet
  split_ifs <;> omega

theorem cxOff_south {n t : Nat} (h1 : 3 * n ≤ t + 1) :
    RingReal.cxOff n t = t + 2 - 3 * n := by
  unfold RingReal.cxOff
  split_ifs <;> omega

theorem perFacet_eq {n t : Nat} (h1 : n ≤ t) (h2 : t + 1 < 3 * n) : RingReal.perFacet n t = n := by
  unfold RingReal.perFacet
  split_ifs <;> omega

theorem cxOff_eq {n t : Nat} (h1 : n ≤ t) (h2 : t + 1 < 3 * n) : RingReal.cxOff n t = (t - n) % 2 := by
  unfold RingReal.cxOff
  split_ifs <;> omega

/-- **the abscissa agrees**: the `RingReal` abscissa of cell number `inRing p` of ring `ringOf p` is `xNat p`
    (every depth) -/
theorem cxI_inRing (d k m i j : Nat) (hk : k < 3) (hm : m < 4) (hi : i < nside d) (hj : j < nside d) :
    RingReal.cxI (nside d) (RingBij.ringOf (nside d) ⟨4 * k + m, i, j⟩) (RingBij.inRing (nside d) ⟨4 * k + m, i, j⟩)
      = RingBij.xNat (nside d) ⟨4 * k + m, i, j⟩ := by
  have hns := RingBij.nside_pos d
  have h1 : (4 * k + m) % 4 = m := by omega
  have hk' : k = 0 ∨ k = 1 ∨ k = 2 := by omega
  have hm' : m = 0 ∨ m = 1 ∨ m = 2 ∨ m = 3 := by omega
  have hr := RingBij.ringOf_mk (nside d) k m i j hm
  have hX := RingBij.xNat_spec (nside d) k m i j hk hm hj
  unfold RingBij.inRing RingReal.cxI
  dsimp only
  rw [hr, h1]
  by_cases cN : k = 0 ∧ nside d ≤ i + j + 1
  · obtain ⟨rfl, hh⟩ := cN
    obtain ⟨t, ht⟩ : ∃ t, t = (0 + 2) * nside d - (i + j + 2) := ⟨_, rfl⟩
    rw [← ht]
    have hlt : t < nside d := by omega
    rw [if_pos hlt, perFacet_north hlt, cxOff_north hlt,
      RingBij.div_of_lt m (by omega : nside d - 1 - j < t + 1),
      RingBij.mod_of_lt m (by omega : nside d - 1 - j < t + 1)]
    generalize RingBij.xNat (nside d) ⟨4 * 0 + m, i, j⟩ = X at *
    generalize nside d = ns at *
    rcases hm' with rfl | rfl | rfl | rfl
    all_goals simp only [Nat.reduceEqDiff, if_false, Nat.reduceMul, Nat.reduceAdd, false_and, true_and,
      false_or, not_false_eq_true] at hX
    all_goals omega
  by_cases cS : k = 2 ∧ i + j + 1 ≤ nside d
  · obtain ⟨rfl, hh⟩ := cS
    obtain ⟨t, ht⟩ : ∃ t, t = (2 + 2) * nside d - (i + j + 2) := ⟨_, rfl⟩
    rw [← ht]
    have g1 : 3 * nside d ≤ t + 1 := by omega
    have g2 : t + 1 < 4 * nside d := by omega
    have ep : 4 * nside d - 1 - t = i + j + 1 := by omega
    rw [if_neg (by omega), if_neg (by omega), perFacet_south g1 g2, cxOff_south g1, ep,
      RingBij.div_of_lt m (by omega : i < i + j + 1), RingBij.mod_of_lt m (by omega : i < i + j + 1)]
    generalize RingBij.xNat (nside d) ⟨4 * 2 + m, i, j⟩ = X at *
    generalize nside d = ns at *
    rcases hm' with rfl | rfl | rfl | rfl
    all_goals simp only [Nat.reduceEqDiff, if_false, Nat.reduceMul, Nat.reduceAdd, false_and, true_and,
      false_or, not_false_eq_true] at hX
    all_goals omega
  · have hle : (k + 2) * nside d ≥ i + j + 2 := by rcases hk' with rfl | rfl | rfl <;> omega
    obtain ⟨t, ht⟩ : ∃ t, t + (i + j + 2) = (k + 2) * nside d := ⟨(k + 2) * nside d - (i + j + 2), by omega⟩
    have e : (k + 2) * nside d - (i + j + 2) = t := by omega
    rw [e]
    have g1 : nside d ≤ t := by rcases hk' with rfl | rfl | rfl <;> omega
    have g2 : t + 2 ≤ 3 * nside d := by rcases hk' with rfl | rfl | rfl <;> omega
    obtain ⟨-, h6, h7⟩ := RingBij.toRing_eq d k m i j t hk hm hi hj ht g1 g2
    rw [if_neg (by omega), if_pos (by omega), perFacet_eq g1 (by omega), cxOff_eq g1 (by omega)]
    generalize RingBij.xNat (nside d) ⟨4 * k + m, i, j⟩ = X at *
    have dm := Nat.div_add_mod (X / 2) (nside d)
    have e2 : 2 * nside d * (X / 2 / nside d) = 2 * (nside d * (X / 2 / nside d)) := Nat.mul_assoc _ _ _
    rw [e2]
    omega

/-- **the centre agrees, in integers**: `Layer.centerXY d p = (cxI, cyI)` of `RingReal` at `(ringOf p, inRing p)` -/
theorem centerXY_ring (d : Nat) (p : HashParts) (hv : RingBij.Valid d p) :
    centerXY d p =
      ((RingReal.cxI (nside d) (RingBij.ringOf (nside d) p) (RingBij.inRing (nside d) p) : Int),
       RingReal.cyI (nside d) (RingBij.ringOf (nside d) p)) := by
  obtain ⟨k, m, hk, hm, e, hi, hj⟩ := RingBij.valid_mk hv
  rw [e, RingBij.centerXY_mk d k m p.i p.j hk hm hi hj, cxI_inRing d k m p.i p.j hk hm hi hj]
  rfl

/-- **`to_ring` in the vocabulary of `RingReal`**: valid parts `p` go to cell number `inRing p` of ring `ringOf p` -/
theorem toRing_ringReal (d : Nat) (p : HashParts) (hv : RingBij.Valid d p) :
    toRingParts d p =
      some (RingReal.ringStart (nside d) (RingBij.ringOf (nside d) p) + RingBij.inRing (nside d) p) ∧
    RingBij.ringOf (nside d) p < 4 * nside d - 1 ∧
    RingBij.inRing (nside d) p < 4 * RingReal.perFacet (nside d) (RingBij.ringOf (nside d) p) := by
  have hns := RingBij.nside_pos d
  obtain ⟨h1, h2, h3⟩ := RingBij.toRing_spec d p hv
  rw [ringStart_same _ _ hns] at h1
  rw [ringLen_same _ _ hns] at h2
  exact ⟨h1, by omega, h2⟩

/-! ## Part 2: the centres in the projection plane -/

/-- the two hypotheses on the float estimate of the ring index are the same one: `RingBij.ApproxOK` below the first
    equatorial cell number of the depth is what `RingReal.ringIndexExact_of_approx` asks for `nside = 2^d` -/
theorem ringIndexExact_of_approxOK (d : Nat) (hA : RingBij.ApproxOK (firstHashInEqr d)) :
    RingReal.RingIndexExact (2 ^ d) := by
  apply RingReal.ringIndexExact_of_approx
  intro x t hx h1 h2
  rw [← RingBij.nside_eq, ← tri4_same, ← RingBij.fe_tri4] at hx
  exact hA x t hx h1 h2

/-- … and with the hypothesis in the form "the `f64` estimate is within 4 of the exact ring index below `2^60`" -/
theorem ringIndexExact_of_lt_2_60 (hA : RingBij.ApproxOK (2 ^ 60)) (d : Nat) (hd : d ≤ 29) :
    RingReal.RingIndexExact (2 ^ d) :=
  ringIndexExact_of_approxOK d (RingBij.approxOK_of_lt_2_60 hA d hd)

theorem two_pow_lt (d : Nat) (hd : d ≤ 29) : 2 ^ d < 2 ^ 30 :=
  Nat.pow_lt_pow_right (by decide) (by omega)

/-- **`ring_center_agrees_parts`**: depth `d ≤ 29`, `nside = 2^d`.  For valid parts `p` of RING number `r`, the RING
    centre of `r` is the point `Layer.centerXY d p / nside` of the projection plane (in both profiles: no panic). -/
theorem ring_center_agrees_parts (debug : Bool) (d : Nat) (hd : d ≤ 29) (hRI : RingReal.RingIndexExact (2 ^ d))
    (p : HashParts) (hv : RingBij.Valid d p) (r : Nat) (hr : toRingParts d p = some r) :
    Ring.centerOfProjectedCell (α := ℝ) debug (2 ^ d) r
      = some ((((centerXY d p).1 : ℤ) : ℝ) / 2 ^ d, (((centerXY d p).2 : ℤ) : ℝ) / 2 ^ d) := by
  obtain ⟨h1, h2, h3⟩ := toRing_ringReal d p hv
  rw [hr] at h1
  cases h1
  rw [centerXY_ring d p hv]
  rw [RingBij.nside_eq] at h2 h3 ⊢
  rw [RingReal.center_eq debug Nat.one_le_two_pow (two_pow_lt d hd) hRI h2 h3]
  push_cast
  rfl

/-- the NESTED side: centre of the cell whose decoded parts are `p` -/
theorem nested_center_parts (cfg : Cfg) (d h : Nat) (p : HashParts) (hh : h < 12 * 4 ^ d)
    (hp : decodeHash cfg d h = some p) (hv : RingBij.Valid d p) :
    Hash.centerOfProjectedCell (α := ℝ) cfg d h
      = some ((((centerXY d p).1 : ℤ) : ℝ) / 2 ^ d, (((centerXY d p).2 : ℤ) : ℝ) / 2 ^ d) := by
  obtain ⟨hb, hi, hj⟩ := hv
  have hh' : h < nHash d := by rw [RingBij.nHash_eq, ← RingBij.four_pow_eq]; exact hh
  obtain ⟨x, y, hc, -, -, -, -, -, -, ex, ey⟩ :=
    CellReal.center_plane_spec cfg d h p.d0h p.i p.j hh' hp hb hi hj
  rw [hc, ex, ey]

/-- **`ring_center_agrees` (`to_ring` form)**: LUT build, depth `d ≤ 29`.  For every NESTED cell `h` of the depth,
    the RING-scheme centre of `to_ring(h)` at `nside = 2^d` is the NESTED centre of `h`. -/
theorem ring_center_agrees_toRing (debug : Bool) (cfg : Cfg) (hb : cfg.bmi = false) (d : Nat) (hd : d ≤ 29)
    (hRI : RingReal.RingIndexExact (2 ^ d)) (h : Nat) (hh : h < 12 * 4 ^ d) (r : Nat)
    (hr : toRing cfg d h = some r) :
    Ring.centerOfProjectedCell (α := ℝ) debug (2 ^ d) r = Hash.centerOfProjectedCell (α := ℝ) cfg d h := by
  obtain ⟨p, hp, hv, -⟩ := RingBij.decode_spec cfg hb d hd h hh
  rw [RingBij.toRing_of_decode cfg d h p hp hv] at hr
  rw [ring_center_agrees_parts debug d hd hRI p hv r hr, nested_center_parts cfg d h p hh hp hv]

/-- **`ring_center_agrees`**: LUT build, depth `d ≤ 29`, `nside = 2^d`.  For every RING number `r < 12·4^d`, the
    RING-scheme centre of `r` is the NESTED centre of `from_ring(r)`: both schemes describe the same cells.
    Hypothesis: the `f64` estimate of the polar ring index is within 4 of the truth below the first equatorial
    cell number (`RingBij.ApproxOK`, the hypothesis of the NESTED <-> RING bijection). -/
theorem ring_center_agrees (debug : Bool) (cfg : Cfg) (hb : cfg.bmi = false) (d : Nat) (hd : d ≤ 29)
    (hA : RingBij.ApproxOK (firstHashInEqr d)) (r : Nat) (hr : r < 12 * 4 ^ d) (h : Nat)
    (hf : fromRing cfg d r = some h) :
    Ring.centerOfProjectedCell (α := ℝ) debug (2 ^ d) r = Hash.centerOfProjectedCell (α := ℝ) cfg d h := by
  obtain ⟨h', h1, h2, h3⟩ := RingBij.toRing_fromRing cfg hb d hd hA r hr
  rw [hf] at h1
  cases h1
  exact ring_center_agrees_toRing debug cfg hb d hd (ringIndexExact_of_approxOK d hA) h h2 r h3

/-- the centres on the sphere agree as well: `Ring.center` and `Hash.center` apply the same `unproj` to the same
    plane point -/
theorem ring_center_sphere_agrees (debug : Bool) (cfg : Cfg) (hb : cfg.bmi = false) (d : Nat) (hd : d ≤ 29)
    (hA : RingBij.ApproxOK (firstHashInEqr d)) (r : Nat) (hr : r < 12 * 4 ^ d) (h : Nat)
    (hf : fromRing cfg d r = some h) :
    Ring.center (α := ℝ) debug (2 ^ d) r = Hash.center (α := ℝ) cfg d h := by
  unfold Ring.center Hash.center
  rw [ring_center_agrees debug cfg hb d hd hA r hr h hf]

theorem ring_center_sphere_agrees_toRing (debug : Bool) (cfg : Cfg) (hb : cfg.bmi = false) (d : Nat) (hd : d ≤ 29)
    (hRI : RingReal.RingIndexExact (2 ^ d)) (h : Nat) (hh : h < 12 * 4 ^ d) (r : Nat)
    (hr : toRing cfg d h = some r) :
    Ring.center (α := ℝ) debug (2 ^ d) r = Hash.center (α := ℝ) cfg d h := by
  unfold Ring.center Hash.center
  rw [ring_center_agrees_toRing debug cfg hb d hd hRI h hh r hr]

/-- the four vertices agree too (same centre, same half-diagonal `1/nside`, same `unproj` calls): the RING cell `r` and
    the NESTED cell `from_ring(r)` are the same diamond of the projection plane -/
theorem ring_vertices_agree (debug : Bool) (cfg : Cfg) (hb : cfg.bmi = false) (d : Nat) (hd : d ≤ 29)
    (hA : RingBij.ApproxOK (firstHashInEqr d)) (r : Nat) (hr : r < 12 * 4 ^ d) (h : Nat)
    (hf : fromRing cfg d r = some h) :
    Ring.vertices (α := ℝ) debug (2 ^ d) r = Hash.vertices (α := ℝ) cfg d h := by
  unfold Ring.vertices Hash.vertices
  rw [ring_center_agrees debug cfg hb d hd hA r hr h hf, RingBij.nside_eq]

/-- … and so does every point `(dx, dy)` inside the cell (`sph_coo`) -/
theorem ring_sphCoo_agree (debug : Bool) (cfg : Cfg) (hb : cfg.bmi = false) (d : Nat) (hd : d ≤ 29)
    (hA : RingBij.ApproxOK (firstHashInEqr d)) (r : Nat) (hr : r < 12 * 4 ^ d) (h : Nat)
    (hf : fromRing cfg d r = some h) (dx dy : ℝ) :
    Ring.sphCoo (α := ℝ) debug (2 ^ d) r dx dy = Hash.sphCoo (α := ℝ) cfg d h dx dy := by
  unfold Ring.sphCoo Hash.sphCoo
  rw [ring_center_agrees debug cfg hb d hd hA r hr h hf, RingBij.nside_eq]
  have e : ∀ a : ℝ, a * ((Num.one : ℝ) / Num.ofNat (2 ^ d)) = a / (Num.ofNat (2 ^ d) : ℝ) := fun a => by
    rw [Proj.r_one, mul_one_div]
  simp only [e]

/-- the bound `d ≤ 29` is sharp on the RING side: at `nside = 2^30` (beyond the crate's `nside_max = 2^29`) the model's
    `(nside << 2)` in `u32` is 0 and the equatorial branch divides by zero -/
theorem ring_center_none_at_depth_30 :
    Ring.centerOfProjectedCell (α := ℝ) true (2 ^ 30) (Ring.tri4 (2 ^ 30 - 1)) = none := by
  unfold Ring.centerOfProjectedCell
  rw [if_neg (by decide +kernel), if_neg (by decide +kernel), if_neg (by decide +kernel), if_neg (by decide +kernel)]
  simp

/-- **C10, last clause, all depths at once**, under the single hypothesis "the `f64` estimate of the ring index is
    within 4 of the truth below `2^60`": for every depth `d ≤ 29`, every RING number `r < 12·4^d`, `from_ring(r)` is a
    NESTED cell `h < 12·4^d` whose centre (plane and sphere) is the RING-scheme centre of `r`; and for every NESTED
    cell `h`, `to_ring(h)` is a RING cell with the same centre. -/
theorem ring_scheme_same_cells (debug : Bool) (cfg : Cfg) (hb : cfg.bmi = false) (hA : RingBij.ApproxOK (2 ^ 60))
    (d : Nat) (hd : d ≤ 29) :
    (∀ r, r < 12 * 4 ^ d → ∃ h, fromRing cfg d r = some h ∧ h < 12 * 4 ^ d ∧
      Ring.centerOfProjectedCell (α := ℝ) debug (2 ^ d) r = Hash.centerOfProjectedCell (α := ℝ) cfg d h ∧
      Ring.center (α := ℝ) debug (2 ^ d) r = Hash.center (α := ℝ) cfg d h) ∧
    (∀ h, h < 12 * 4 ^ d → ∃ r, toRing cfg d h = some r ∧ r < 12 * 4 ^ d ∧
      Ring.centerOfProjectedCell (α := ℝ) debug (2 ^ d) r = Hash.centerOfProjectedCell (α := ℝ) cfg d h ∧
      Ring.center (α := ℝ) debug (2 ^ d) r = Hash.center (α := ℝ) cfg d h) := by
  have hA' := RingBij.approxOK_of_lt_2_60 hA d hd
  have hRI := ringIndexExact_of_approxOK d hA'
  constructor
  · intro r hr
    obtain ⟨h, h1, h2, -⟩ := RingBij.toRing_fromRing cfg hb d hd hA' r hr
    exact ⟨h, h1, h2, ring_center_agrees debug cfg hb d hd hA' r hr h h1,
      ring_center_sphere_agrees debug cfg hb d hd hA' r hr h h1⟩
  · intro h hh
    obtain ⟨r, h1, h2, -⟩ := RingBij.fromRing_toRing cfg hb d hd hA' h hh
    exact ⟨r, h1, h2, ring_center_agrees_toRing debug cfg hb d hd hRI h hh r h1,
      ring_center_sphere_agrees_toRing debug cfg hb d hd hRI h hh r h1⟩

/-! ## non-vacuity and concrete instances -/

/-- the integer statements by evaluation at depths 0 … 3 (all `12·4^d` cells): same ring partition, same centres -/
example : ∀ d, d < 4 → ∀ b, b < 12 → ∀ i, i < 2 ^ d → ∀ j, j < 2 ^ d →
    (decide (centerXY d ⟨b, i, j⟩ =
        ((RingReal.cxI (2 ^ d) (RingBij.ringOf (2 ^ d) ⟨b, i, j⟩) (RingBij.inRing (2 ^ d) ⟨b, i, j⟩) : Int),
          RingReal.cyI (2 ^ d) (RingBij.ringOf (2 ^ d) ⟨b, i, j⟩))) &&
      decide (RingBij.ringStart (2 ^ d) (RingBij.ringOf (2 ^ d) ⟨b, i, j⟩) =
        RingReal.ringStart (2 ^ d) (RingBij.ringOf (2 ^ d) ⟨b, i, j⟩)) &&
      decide (RingBij.ringLen (2 ^ d) (RingBij.ringOf (2 ^ d) ⟨b, i, j⟩) =
        4 * RingReal.perFacet (2 ^ d) (RingBij.ringOf (2 ^ d) ⟨b, i, j⟩))) = true := by
  decide +kernel

/-- the hypotheses are satisfiable: depth 2, base cell 4, `(i, j) = (1, 2)` (the wrap-around case) is RING cell 103 =
    cell 7 of ring 7, whose centre is `(31/4, 0)` in both schemes -/
example : Ring.centerOfProjectedCell (α := ℝ) true (2 ^ 2) 103
    = some ((((31 : ℤ) : ℤ) : ℝ) / 2 ^ 2, (((0 : ℤ) : ℤ) : ℝ) / 2 ^ 2) :=
  ring_center_agrees_parts true 2 (by decide)
    (ringIndexExact_of_approxOK 2 (RingBij.approxOK_depth3.mono (by decide))) ⟨4, 1, 2⟩ (by decide) 103 (by decide)

/-- depth 1, RING 7 ↔ NESTED 5; depth 2, RING 103 ↔ NESTED 73; depth 1, RING 47 ↔ NESTED 44 (last cell) -/
example : Ring.centerOfProjectedCell (α := ℝ) true (2 ^ 1) 7 = Hash.centerOfProjectedCell (α := ℝ) {} 1 5 ∧
    Ring.center (α := ℝ) false (2 ^ 2) 103 = Hash.center (α := ℝ) {} 2 73 ∧
    Ring.center (α := ℝ) true (2 ^ 1) 47 = Hash.center (α := ℝ) {} 1 44 :=
  ⟨ring_center_agrees true {} rfl 1 (by decide) (RingBij.approxOK_depth3.mono (by decide)) 7 (by decide) 5
      (by decide +kernel),
   ring_center_sphere_agrees false {} rfl 2 (by decide) (RingBij.approxOK_depth3.mono (by decide)) 103 (by decide) 73
      (by decide +kernel),
   ring_center_sphere_agrees true {} rfl 1 (by decide) (RingBij.approxOK_depth3.mono (by decide)) 47 (by decide) 44
      (by decide +kernel)⟩

/-- every cell of depth 3 -/
example (r : Nat) (hr : r < 12 * 4 ^ 3) : ∃ h, fromRing {} 3 r = some h ∧ h < 12 * 4 ^ 3 ∧
    Ring.centerOfProjectedCell (α := ℝ) true (2 ^ 3) r = Hash.centerOfProjectedCell (α := ℝ) {} 3 h := by
  obtain ⟨h, h1, h2, -⟩ := RingBij.toRing_fromRing {} rfl 3 (by decide) RingBij.approxOK_depth3 r hr
  exact ⟨h, h1, h2, ring_center_agrees true {} rfl 3 (by decide) RingBij.approxOK_depth3 r hr h h1⟩

#print axioms ringStart_same
#print axioms centerXY_ring
#print axioms ring_center_agrees_parts
#print axioms ring_center_agrees
#print axioms ring_center_sphere_agrees
#print axioms ring_scheme_same_cells
#print axioms ring_vertices_agree
#print axioms ring_sphCoo_agree
#print axioms ring_center_none_at_depth_30

end Hpx.RingCenter
