/-
C01 over the reals: the front end of the NESTED `hash` (`xpm1_and_q`, `d0h_lh_in_d0c`, the two scaled truncations and
the clamp of `hash_v2`) returns parts `(d0h, i, j)` whose closed diamond in the HEALPix projection plane contains the
projected point.  All seam decisions are covered: `>` vs `≥` in `q01`/`q12`, strict `lat > transitionLat`, the
negative-longitude branch `3 − (q >>> 1)`, the clamp at `i = nside`.

This file: the instance unfolding lemmas, `xpm1AndQ` over ℝ, the floor/clamp lemma, the plane geometry of the three
branches of `d0hLhInD0c`.  `HashReal2.lean`: the link with `Proj.proj` and the final theorem.
-/
import HpxVerif.Model.Hash
import HpxVerif.Lemmas.ProjReal
import Mathlib.Tactic.Positivity

namespace Hpx.HashReal
open Real Hpx.Proj Hpx.Hash

/-! ## unfolding the instance -/

theorem r_gt (x y : ℝ) : Num.gt x y = decide (y < x) := rfl
theorem r_ge (x y : ℝ) : Num.ge x y = decide (y ≤ x) := rfl
theorem r_ofInt (n : ℤ) : (Num.ofInt n : ℝ) = (n : ℝ) := rfl
theorem r_truncU8 (x : ℝ) : Num.truncU8 x = min ⌊max x 0⌋₊ 255 := rfl
theorem r_truncScaleU32 (x : ℝ) (k : ℤ) : Num.truncScaleU32 x k = min ⌊max (x * (2 : ℝ) ^ k) 0⌋₊ (2 ^ 32 - 1) := rfl

/-! ## integer helpers -/

theorem lor_one (n : ℕ) : n ||| 1 = 2 * (n / 2) + 1 := by
  apply Nat.eq_of_testBit_eq
  intro i
  cases i with
  | zero => simp
  | succ i =>
    rw [Nat.testBit_or, Nat.testBit_succ, Nat.testBit_succ (2 * (n / 2) + 1), Nat.testBit_succ 1]
    have : (2 * (n / 2) + 1) / 2 = n / 2 := by omega
    rw [this]; simp

theorem odd_and_seven (k : ℕ) : (2 * k + 1) &&& 7 = 2 * (k % 4) + 1 := by
  rw [show (7 : ℕ) = 2 ^ 3 - 1 from rfl, Nat.and_two_pow_sub_one_eq_mod]; omega

theorem odd_and_seven_shr (k : ℕ) : ((2 * k + 1) &&& 7) >>> 1 = k % 4 := by
  rw [odd_and_seven, Nat.shiftRight_eq_div_pow]; omega

/-- the odd floor `(x as u8) | 1` of a real in `[0, 256)` is `2⌊x/2⌋ + 1` -/
theorem oddFloor_real (x : ℝ) (h0 : 0 ≤ x) (h : x < 256) :
    ∃ k : ℕ, k < 128 ∧ (Num.truncU8 x ||| 1) = 2 * k + 1 ∧ (2 * k : ℝ) ≤ x ∧ x < 2 * k + 2 := by
  rw [r_truncU8, max_eq_left h0]
  have hn : ⌊x⌋₊ < 256 := (Nat.floor_lt h0).mpr (by exact_mod_cast h)
  have hle : (⌊x⌋₊ : ℝ) ≤ x := Nat.floor_le h0
  have hlt : x < (⌊x⌋₊ : ℝ) + 1 := Nat.lt_floor_add_one x
  rw [min_eq_left (by omega)]
  generalize ⌊x⌋₊ = n at *
  refine ⟨n / 2, by omega, lor_one n, ?_, ?_⟩
  · have : ((2 * (n / 2) : ℕ) : ℝ) ≤ (n : ℝ) := by
      have : 2 * (n / 2) ≤ n := by omega
      exact_mod_cast this
    push_cast at this; linarith
  · have : (n : ℝ) + 1 ≤ ((2 * (n / 2) + 2 : ℕ) : ℝ) := by
      have : n + 1 ≤ 2 * (n / 2) + 2 := by omega
      exact_mod_cast this
    push_cast at this; linarith

/-! ## (a) `xpm1_and_q` over ℝ -/

/-- `xpm1_and_q` and `pm1_offset_decompose` (the front end of `proj`) on the same longitude: with `x = |lon|·4/π < 256`
    and `k = ⌊x/2⌋`: non-negative longitude ↦ `(x − (2k+1), k mod 4)`, negative ↦ `((2k+1) − x, 3 − k mod 4)`. -/
theorem xpm1AndQ_real (lon : ℝ) (h : |lon| * (4 / π) < 256) :
    ∃ k : ℕ, k < 128 ∧ (2 * k : ℝ) ≤ |lon| * (4 / π) ∧ |lon| * (4 / π) < 2 * k + 2 ∧
      xpm1AndQ (α := ℝ) lon =
        (if lon < 0 then ((2 * k + 1 : ℝ) - |lon| * (4 / π), 3 - k % 4) else (|lon| * (4 / π) - (2 * k + 1 : ℝ), k % 4)) ∧
      pm1OffsetDecompose (α := ℝ) (|lon| * (4 / π)) = (2 * (k % 4) + 1, |lon| * (4 / π) - (2 * k + 1 : ℝ)) := by
  have hpi := Real.pi_pos
  have h0 : 0 ≤ |lon| * (4 / π) := mul_nonneg (abs_nonneg _) (by positivity)
  obtain ⟨k, hk, hodd, h1, h2⟩ := oddFloor_real _ h0 h
  refine ⟨k, hk, h1, h2, ?_, ?_⟩
  · unfold xpm1AndQ
    simp only [r_abs, r_signBit, r_fourOverPi, hodd, odd_and_seven_shr, r_ofNat]
    by_cases hneg : lon < 0
    · simp [hneg]
    · simp [hneg]
  · unfold pm1OffsetDecompose
    simp only [hodd, odd_and_seven, r_ofNat]
    push_cast; rfl

/-! ## (d) scaled truncation and clamp -/

/-- the grid coordinate computed by `hash_v2` from `h ± l` -/
noncomputable def gridCoord (d : ℕ) (v : ℝ) : ℕ :=
  let i := Num.truncScaleU32 v (timeHalfNside d)
  if i == Layer.nside d then Layer.nside d - 1 else i

theorem nside_eq (d : ℕ) : Layer.nside d = 2 ^ d := by
  unfold Layer.nside; rw [Nat.shiftLeft_eq, one_mul]

/-- the exponent increment `time_half_nside` multiplies by `nside / 2` (depth 0 included: `2^(-1)`) -/
theorem zpow_timeHalfNside (d : ℕ) : (2 : ℝ) ^ (timeHalfNside d) = (2 : ℝ) ^ d / 2 := by
  unfold timeHalfNside
  split
  · rw [zpow_sub_one₀ (by norm_num : (2 : ℝ) ≠ 0), zpow_natCast]; rfl
  · have : d = 0 := by omega
    subst this; norm_num

/-- for `0 ≤ v ≤ 2` and `d ≤ 32`: the clamped coordinate is `< nside` and `i ≤ (nside/2)·v ≤ i + 1`.
    The clamp is taken exactly when `v = 2` (at `d = 32` the `u32` saturation plays the same role). -/
theorem gridCoord_spec (d : ℕ) (hd : d ≤ 32) (v : ℝ) (h0 : 0 ≤ v) (h2 : v ≤ 2) :
    gridCoord d v < 2 ^ d ∧ (gridCoord d v : ℝ) ≤ (2 : ℝ) ^ d / 2 * v ∧ (2 : ℝ) ^ d / 2 * v ≤ (gridCoord d v : ℝ) + 1 := by
  unfold gridCoord
  simp only [r_truncScaleU32, zpow_timeHalfNside, nside_eq]
  have hpow : (0 : ℝ) < (2 : ℝ) ^ d := by positivity
  set w := v * ((2 : ℝ) ^ d / 2) with hw
  have hw0 : 0 ≤ w := by positivity
  have hwN : w ≤ ((2 ^ d : ℕ) : ℝ) := by push_cast; rw [hw]; nlinarith
  rw [max_eq_left hw0, show (2 : ℝ) ^ d / 2 * v = w by rw [hw]; ring]
  have hfN : ⌊w⌋₊ ≤ 2 ^ d := Nat.floor_le_of_le hwN
  have hle : (⌊w⌋₊ : ℝ) ≤ w := Nat.floor_le hw0
  have hlt : w < (⌊w⌋₊ : ℝ) + 1 := Nat.lt_floor_add_one w
  have hN1 : 1 ≤ 2 ^ d := Nat.one_le_two_pow
  have hN32 : 2 ^ d ≤ 2 ^ 32 := Nat.pow_le_pow_right (by norm_num) hd
  generalize ⌊w⌋₊ = f at *
  generalize (2 : ℕ) ^ d = N at *
  rcases Nat.lt_or_ge f N with hf | hf
  · have e1 : min f (2 ^ 32 - 1) = f := min_eq_left (by omega)
    have e2 : (f == N) = false := by simp; omega
    rw [e1, e2]
    simp only [Bool.false_eq_true, if_false]
    exact ⟨hf, hle, le_of_lt hlt⟩
  · have hfe : f = N := by omega
    subst hfe
    have hwe : w = (f : ℝ) := le_antisymm hwN hle
    have key : (if (min f (2 ^ 32 - 1) == f) = true then f - 1 else min f (2 ^ 32 - 1)) = f - 1 := by
      split
      · rfl
      · rename_i hne
        have : min f (2 ^ 32 - 1) ≠ f := by simpa using hne
        have : min f (2 ^ 32 - 1) = 2 ^ 32 - 1 := by omega
        omega
    rw [key]
    have hc : ((f - 1 : ℕ) : ℝ) = (f : ℝ) - 1 := by
      rw [Nat.cast_sub hN1]; simp
    rw [hc, hwe]
    refine ⟨by omega, by linarith, by linarith⟩

/-! ## (b), (c) the three branches of `d0h_lh_in_d0c` in the projection plane -/

/-- `d0h_lh_in_d0c` after `xpm1_and_q`, written with the real operations and the four equatorial quadrants explicit
    (`q < 4`): east `(q01, q12) = (1, 1)`, south `(1, 0)`, north `(0, 1)`, west `(0, 0)` -/
noncomputable def d0hLhOf (x : ℝ) (q : ℕ) (lat : ℝ) : ℕ × ℝ × ℝ :=
  if Real.arcsin (2 / 3) < lat then
    (q, x * (Real.sqrt 6 * Real.cos (lat / 2 + π / 4)), 2 - Real.sqrt 6 * Real.cos (lat / 2 + π / 4))
  else if lat < -Real.arcsin (2 / 3) then
    (q + 8, x * (Real.sqrt 6 * Real.cos (lat / 2 - π / 4)), Real.sqrt 6 * Real.cos (lat / 2 - π / 4))
  else if Real.sin lat * (3 / 2) < x then
    if -(Real.sin lat * (3 / 2)) ≤ x then (4 + (q + 1) % 4, x - 1, Real.sin lat * (3 / 2) + 1)
    else (8 + q, x, Real.sin lat * (3 / 2) + 2)
  else
    if -(Real.sin lat * (3 / 2)) ≤ x then (q, x, Real.sin lat * (3 / 2))
    else (4 + q, x + 1, Real.sin lat * (3 / 2) + 1)

theorem eqD0h_table : ∀ q, q < 4 → eqD0h q 1 1 = 4 + (q + 1) % 4 ∧ eqD0h q 1 0 = 8 + q ∧ eqD0h q 0 1 = q ∧ eqD0h q 0 0 = 4 + q := by
  decide

/-- the model's `d0h_lh_in_d0c` over ℝ is `d0hLhOf` applied to the output of `xpm1_and_q` -/
theorem d0hLhInD0c_eq (lon lat : ℝ) (hq : (xpm1AndQ (α := ℝ) lon).2 < 4) :
    d0hLhInD0c (α := ℝ) lon lat = d0hLhOf (xpm1AndQ (α := ℝ) lon).1 (xpm1AndQ (α := ℝ) lon).2 lat := by
  unfold d0hLhInD0c d0hLhOf
  generalize (xpm1AndQ (α := ℝ) lon) = p at *
  obtain ⟨x, q⟩ := p
  simp only [r_gt, r_ge, r_lt, r_transitionLat, r_sqrt6, r_cos, r_sin, r_two, r_pi4, r_ootz, r_ofInt, r_ofNat] at hq ⊢
  obtain ⟨t11, t10, t01, t00⟩ := eqD0h_table q hq
  by_cases hN : Real.arcsin (2 / 3) < lat
  · simp only [hN, decide_true, if_true]
  · by_cases hS : lat < -Real.arcsin (2 / 3)
    · simp only [hN, hS, decide_true, decide_false, if_true, Bool.false_eq_true, if_false]
    · simp only [hN, hS, decide_false, Bool.false_eq_true, if_false]
      by_cases h01 : Real.sin lat * (3 / 2) < x <;> by_cases h12 : -(Real.sin lat * (3 / 2)) ≤ x <;>
        simp [h01, h12, t11, t10, t01, t00]

/-- centre of base cell `b` in the projection plane (Calabretta & Roukema, `H = 4`, `K = 3`, `x ∈ [0, 8)`) -/
def baseCentre (b : ℕ) : ℝ × ℝ :=
  if b / 4 = 0 then (2 * ((b % 4 : ℕ) : ℝ) + 1, 1)
  else if b / 4 = 1 then (2 * ((b % 4 : ℕ) : ℝ), 0)
  else (2 * ((b % 4 : ℕ) : ℝ) + 1, -1)

/-- the plane point described by `(xpm1, q)` and the latitude: abscissa `xpm1·σ + (2q+1)` (`σ = 1` in the equatorial
    region), ordinate `(3/2) sin lat` or `±(2 − σ)` -/
noncomputable def planeOf (x : ℝ) (q : ℕ) (lat : ℝ) : ℝ × ℝ :=
  if Real.arcsin (2 / 3) < lat then
    (x * (Real.sqrt 6 * Real.cos (lat / 2 + π / 4)) + (2 * (q : ℝ) + 1), 2 - Real.sqrt 6 * Real.cos (lat / 2 + π / 4))
  else if lat < -Real.arcsin (2 / 3) then
    (x * (Real.sqrt 6 * Real.cos (lat / 2 - π / 4)) + (2 * (q : ℝ) + 1), -(2 - Real.sqrt 6 * Real.cos (lat / 2 - π / 4)))
  else (x + (2 * (q : ℝ) + 1), Real.sin lat * (3 / 2))

theorem baseCentre_table : ∀ q, q < 4 → baseCentre q = (2 * (q : ℝ) + 1, 1) ∧ baseCentre (4 + q) = (2 * (q : ℝ), 0) ∧
    baseCentre (8 + q) = (2 * (q : ℝ) + 1, -1) ∧ baseCentre (q + 8) = (2 * (q : ℝ) + 1, -1) := by
  intro q hq
  interval_cases q <;> norm_num [baseCentre]

/-- south cap: `σ = √6 cos(lat/2 − π/4) ∈ [0, 1)` -/
theorem collignon_south (lat : ℝ) (h1 : -(π / 2) ≤ lat) (h2 : lat < -Real.arcsin (2 / 3)) :
    0 ≤ Real.sqrt 6 * Real.cos (lat / 2 - π / 4) ∧ Real.sqrt 6 * Real.cos (lat / 2 - π / 4) < 1 := by
  have := collignon_y_lt_one (-lat) (by linarith) (by linarith)
  rwa [show 1 / 2 * -lat + π / 4 = -(lat / 2 - π / 4) by ring, Real.cos_neg] at this

/-- equatorial region: `(3/2) sin lat ∈ [−1, 1]` -/
theorem cea_y_bounds (lat : ℝ) (h1 : -Real.arcsin (2 / 3) ≤ lat) (h2 : lat ≤ Real.arcsin (2 / 3)) :
    -1 ≤ Real.sin lat * (3 / 2) ∧ Real.sin lat * (3 / 2) ≤ 1 := by
  have ha : Real.sin (Real.arcsin (2 / 3)) = 2 / 3 := Real.sin_arcsin (by norm_num) (by norm_num)
  have hu := Real.arcsin_le_pi_div_two (2 / 3)
  have hl := Real.neg_pi_div_two_le_arcsin (2 / 3)
  have hpos : 0 ≤ Real.arcsin (2 / 3) := Real.arcsin_nonneg.mpr (by norm_num)
  have s1 : Real.sin lat ≤ 2 / 3 := by
    have := Real.sin_le_sin_of_le_of_le_pi_div_two (by linarith) hu h2
    rwa [ha] at this
  have s2 : -(2 / 3) ≤ Real.sin lat := by
    have := Real.sin_le_sin_of_le_of_le_pi_div_two (x := -Real.arcsin (2 / 3)) (by linarith) (by linarith) h1
    rwa [Real.sin_neg, ha] at this
  constructor <;> linarith

/-- **Geometry of the front end.**  For `xpm1 ∈ [−1, 1]` (both ends: `1` is reached by negative longitudes), `q < 4` and
    a latitude in `[−π/2, π/2]`, the parts `(d0h, l, h)` satisfy: `d0h < 12`; `h ± l ∈ [0, 2]`; and relative to the centre
    `(Xb, Yb)` of base cell `d0h`: `h = Y − Yb + 1`, `l = X − Xb` with `X` taken modulo 8, where `(X, Y)` is the plane
    point `planeOf xpm1 q lat`. -/
theorem parts_geom (x : ℝ) (q : ℕ) (lat : ℝ) (hx1 : -1 ≤ x) (hx2 : x ≤ 1) (hq : q < 4)
    (hl1 : -(π / 2) ≤ lat) (hl2 : lat ≤ π / 2) :
    (d0hLhOf x q lat).1 < 12 ∧
    0 ≤ (d0hLhOf x q lat).2.2 + (d0hLhOf x q lat).2.1 ∧ (d0hLhOf x q lat).2.2 + (d0hLhOf x q lat).2.1 ≤ 2 ∧
    0 ≤ (d0hLhOf x q lat).2.2 - (d0hLhOf x q lat).2.1 ∧ (d0hLhOf x q lat).2.2 - (d0hLhOf x q lat).2.1 ≤ 2 ∧
    (d0hLhOf x q lat).2.2 = (planeOf x q lat).2 - (baseCentre (d0hLhOf x q lat).1).2 + 1 ∧
    ∃ m : ℤ, (d0hLhOf x q lat).2.1 = (planeOf x q lat).1 + 8 * (m : ℝ) - (baseCentre (d0hLhOf x q lat).1).1 := by
  obtain ⟨c0, c4, c8, c8'⟩ := baseCentre_table q hq
  unfold d0hLhOf planeOf
  by_cases hN : Real.arcsin (2 / 3) < lat
  · simp only [hN, if_true, c0]
    obtain ⟨hs0, hs1⟩ := collignon_y_lt_one lat hN hl2
    rw [show 1 / 2 * lat + π / 4 = lat / 2 + π / 4 by ring] at hs0 hs1
    generalize Real.sqrt 6 * Real.cos (lat / 2 + π / 4) = s at *
    refine ⟨by omega, by nlinarith, by nlinarith, by nlinarith, by nlinarith, by ring, 0, by push_cast; ring⟩
  · by_cases hS : lat < -Real.arcsin (2 / 3)
    · simp only [hN, hS, if_true, if_false, c8']
      obtain ⟨hs0, hs1⟩ := collignon_south lat hl1 hS
      generalize Real.sqrt 6 * Real.cos (lat / 2 - π / 4) = s at *
      refine ⟨by omega, by nlinarith, by nlinarith, by nlinarith, by nlinarith, by ring, 0, by push_cast; ring⟩
    · simp only [hN, hS, if_false]
      obtain ⟨hy1, hy2⟩ := cea_y_bounds lat (by linarith) (by linarith)
      generalize Real.sin lat * (3 / 2) = y at *
      by_cases h01 : y < x <;> by_cases h12 : -y ≤ x
      · -- east
        simp only [h01, h12, if_true]
        have hc : baseCentre (4 + (q + 1) % 4) = (2 * (((q + 1) % 4 : ℕ) : ℝ), 0) := (baseCentre_table _ (by omega)).2.1
        rw [hc]
        refine ⟨by omega, by linarith, by linarith, by linarith, by linarith, by ring, ?_⟩
        by_cases h3 : q = 3
        · subst h3; exact ⟨-1, by norm_num; ring⟩
        · have : (q + 1) % 4 = q + 1 := by omega
          rw [this]; exact ⟨0, by push_cast; ring⟩
      · -- south
        simp only [h01, h12, if_true, if_false, c8]
        refine ⟨by omega, by linarith, by linarith, by linarith, by linarith, by ring, 0, by push_cast; ring⟩
      · -- north
        simp only [h01, h12, if_true, if_false, c0]
        refine ⟨by omega, by linarith, by linarith, by linarith, by linarith, by ring, 0, by push_cast; ring⟩
      · -- west
        simp only [h01, h12, if_false, c4]
        refine ⟨by omega, by linarith, by linarith, by linarith, by linarith, by ring, 0, by push_cast; ring⟩

end Hpx.HashReal
