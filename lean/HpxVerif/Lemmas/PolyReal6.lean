/-
Point-in-polygon over the reals (C12), part 6: the hypotheses are satisfiable (a concrete triangle, end to end through
`Polygon::new`), and the limits of the predicate outside the domain of the theorem (counter-examples).
-/
import HpxVerif.Lemmas.PolyReal5

namespace Hpx.Sph
open Real Hpx.Proj

/-! ## a concrete triangle: `(0, 0)`, `(π/2, 0)`, `(π/4, π/4)` (counter-clockwise) -/

noncomputable def triLL : List (ℝ × ℝ) := [(0, 0), (π / 2, 0), (π / 4, π / 4)]

noncomputable def triA : Coo ℝ := { x := 1, y := 0, z := 0, lon := 0, lat := 0 }
noncomputable def triB : Coo ℝ := { x := 0, y := 1, z := 0, lon := π / 2, lat := 0 }
noncomputable def triC : Coo ℝ := { x := 1 / 2, y := 1 / 2, z := √2 / 2, lon := π / 4, lat := π / 4 }

theorem sqrt2_sq : (√2 : ℝ) * √2 = 2 := Real.mul_self_sqrt (by norm_num)
theorem sqrt3_sq : (√3 : ℝ) * √3 = 3 := Real.mul_self_sqrt (by norm_num)

theorem triLL_map : triLL.map cooOf = [triA, triB, triC] := by
  simp only [triLL, List.map_cons, List.map_nil, cooOf, triA, triB, triC, cos_zero, sin_zero, cos_pi_div_two,
    sin_pi_div_two, cos_pi_div_four, sin_pi_div_four]
  rw [show (√2 / 2 : ℝ) * (√2 / 2) = 1 / 2 by nlinarith [sqrt2_sq]]
  norm_num

theorem edges_three (a b c : Coo ℝ) : edges [a, b, c] = [(c, a), (a, b), (b, c)] := rfl

theorem tri_convex : ConvexNoPole 1 [triA, triB, triC] := by
  have hpi := pi_pos
  have h2 := sqrt2_sq
  have h2p : (0 : ℝ) < √2 := Real.sqrt_pos.mpr (by norm_num)
  refine ⟨Or.inl rfl, by simp, ?_, ?_, ⟨(1, 1, 1), ?_⟩, ⟨(triA, triB), by simp [edges_three], ?_⟩,
    ⟨(triB, triC), by simp [edges_three], ?_⟩⟩
  · intro v hv
    simp only [List.mem_cons, List.not_mem_nil, or_false] at hv
    rcases hv with rfl | rfl | rfl
    · refine ⟨⟨?_, ?_, ?_, ?_, ?_, ?_, ?_⟩, ?_, ?_⟩ <;> simp [triA] <;> linarith
    · refine ⟨⟨?_, ?_, ?_, ?_, ?_, ?_, ?_⟩, ?_, ?_⟩ <;> simp [triB] <;> linarith
    · refine ⟨⟨?_, ?_, ?_, ?_, ?_, ?_, ?_⟩, ?_, ?_⟩ <;> simp [triC] <;> linarith
  · intro i k hi hk h1 h2'
    simp only [List.length_cons, List.length_nil] at hi hk h1 h2'
    interval_cases i <;> interval_cases k <;> simp [prevIdx] at h1 h2' ⊢ <;>
      simp [dot, cross, triA, triB, triC]
  · intro v hv
    simp only [List.mem_cons, List.not_mem_nil, or_false] at hv
    rcases hv with rfl | rfl | rfl
    · simp [dot, triA]
    · simp [dot, triB]
    · simp [dot, triC]; positivity
  · simp [cross, triA, triB]
  · simp [cross, triB, triC]

/-- the hypotheses of `contains_convex_all` hold for a concrete polygon and a concrete point **on the meridian of a
    vertex**; end to end: `Polygon::new` on the three positions, then `contains (π/4, π/6) = true` -/
example : ∃ poly, Polygon.new false triLL = some poly ∧ poly.contains (cooOf (π / 4, π / 6)) = true := by
  have hpi := pi_pos
  have h2 := sqrt2_sq
  have h3 := sqrt3_sq
  have h2p : (0 : ℝ) < √2 := Real.sqrt_pos.mpr (by norm_num)
  have h3p : (0 : ℝ) < √3 := Real.sqrt_pos.mpr (by norm_num)
  have h3g : (1 : ℝ) < √3 := by nlinarith
  obtain ⟨poly, hnew, hvs, hb⟩ := polygon_new_real false triLL (by simp [triLL]) (by
    intro ll hll
    simp only [triLL, List.mem_cons, List.not_mem_nil, or_false] at hll
    rcases hll with rfl | rfl | rfl <;> refine ⟨?_, ?_, ?_, ?_⟩ <;> simp <;> linarith)
  refine ⟨poly, hnew, ?_⟩
  rw [triLL_map] at hvs
  have hp : (cooOf (π / 4, π / 6)).Valid := cooOf_valid _ (by simp; linarith) (by simp; linarith) (by simp; linarith)
    (by simp; linarith)
  have hdots : ∀ e ∈ edges poly.vertices, 0 < 1 * dot (cooOf (π / 4, π / 6)) (cross e.1 e.2) := by
    intro e he
    rw [hvs, edges_three] at he
    simp only [List.mem_cons, List.not_mem_nil, or_false] at he
    rcases he with rfl | rfl | rfl <;>
      simp [dot, cross, cooOf, triA, triB, triC, cos_pi_div_four, sin_pi_div_four, cos_pi_div_six, sin_pi_div_six] <;>
      nlinarith
  rw [contains_convex_all poly hb 1 (by rw [hvs]; exact tri_convex) _ hp
    (fun e he => by have := hdots e he; rw [one_mul] at this; exact this.ne')]
  exact hdots

/-! ## outside the domain of the theorem

1. **A convex polygon that contains the south pole with half of its vertices in the northern hemisphere**: the heuristic
   `Basic::contains_south_pole` (more than half of the vertices in the south) answers `false`, and every answer of
   `contains` is inverted.  The quadrilateral below is strictly convex, counter-clockwise, contained in an open hemisphere
   and has the south pole strictly inside; `(1.0, -1.5)` and `(1.0, 0.0)` are inside all four half-spaces, `(1.0, 1.0)`
   and `(4.0, 0.5)` are outside.  (Checked on the `Float` instance, i.e. the model run that is compared with the crate.)
   The property C12 excludes polygons that reach a pole; this is the documented heuristic.
2. **An edge whose end points are on exactly opposite meridians** (`|Δlon| = π`): the arc passes over a pole, `(u × w).z = 0`,
   the normal is not re-oriented and the longitude range is taken as `[min, max)`; `crossing_test_geometric` excludes this
   case and the test is then not the geometric one (over ℝ: for the triangle `(0, π/4), (π/2, 0), (π, π/4)` and the point
   `(π/4, -π/4)`, the edge `(π, π/4) → (0, π/4)` is counted although the arc does not meet the meridian of the point).  In
   double precision `π` is not representable, `(u × w).z` is a rounding residue and the answer depends on its sign.
-/

/-! ### the degenerate edge over a pole, over the reals -/

/-- `contains`, with no hypothesis: the stored flag `xor` the parity of the number of edges that pass the two tests -/
theorem contains_eq_count (poly : Polygon ℝ) (hb : poly.Built) (p : Coo ℝ) :
    poly.contains p = xor (containsSouthPoleBasic poly.vertices)
      (oddB ((edges poly.vertices).countP
        (fun e => isInLonRange p e.1 e.2 && Num.gt (dot p (npCross e.1 e.2)) (Num.zero : ℝ)))) := by
  unfold Polygon.contains
  rw [hb.csp]
  congr 1
  unfold oddNumIntersectGoingSouth
  rw [hb.cps]
  unfold edges
  cases hl : poly.vertices.getLast? with
  | none => simp [oddB]
  | some last =>
    simp only
    rw [odd_go_eq, Bool.false_xor]

theorem lonRange_nowrap (a b l : ℝ) (h : |b - a| ≤ π) : LonRange a b l ↔ min a b ≤ l ∧ l < max a b := by
  unfold LonRange; rw [if_pos h]

noncomputable def degLL : List (ℝ × ℝ) := [(0, π / 4), (π / 2, 0), (π, π / 4)]
noncomputable def degU : Coo ℝ := { x := √2 / 2, y := 0, z := √2 / 2, lon := 0, lat := π / 4 }
noncomputable def degV : Coo ℝ := { x := 0, y := 1, z := 0, lon := π / 2, lat := 0 }
noncomputable def degW : Coo ℝ := { x := -(√2 / 2), y := 0, z := √2 / 2, lon := π, lat := π / 4 }
noncomputable def degP : Coo ℝ := { x := 1 / 2, y := 1 / 2, z := -(√2 / 2), lon := π / 4, lat := -(π / 4) }

theorem degLL_map : degLL.map cooOf = [degU, degV, degW] := by
  simp [degLL, cooOf, degU, degV, degW]

theorem degP_eq : cooOf (π / 4, -(π / 4)) = degP := by
  simp only [cooOf, degP, cos_neg, sin_neg, cos_pi_div_four, sin_pi_div_four]
  rw [show (√2 / 2 : ℝ) * (√2 / 2) = 1 / 2 by nlinarith [sqrt2_sq]]

/-- **counter-example outside the domain (edge over the north pole, `|Δlon| = π` exactly).**  Over the reals, for the
    triangle `(0, π/4), (π/2, 0), (π, π/4)` the predicate answers `true` at `(π/4, -π/4)`, a point of the southern
    hemisphere which is on the wrong side of the edge `(0, π/4) → (π/2, 0)` for the counter-clockwise reading and on the
    wrong side of the edge `(π, π/4) → (0, π/4)` for the clockwise one: it is in the triangle for neither winding. -/
example : ∃ poly, Polygon.new false degLL = some poly ∧ poly.contains (cooOf (π / 4, -(π / 4))) = true ∧
    dot (cooOf (π / 4, -(π / 4))) (cross degU degV) < 0 ∧ 0 < dot (cooOf (π / 4, -(π / 4))) (cross degW degU) := by
  have hpi := pi_pos
  have h2 := sqrt2_sq
  have h2p : (0 : ℝ) < √2 := Real.sqrt_pos.mpr (by norm_num)
  obtain ⟨poly, hnew, hvs, hb⟩ := polygon_new_real false degLL (by simp [degLL]) (by
    intro ll hll
    simp only [degLL, List.mem_cons, List.not_mem_nil, or_false] at hll
    rcases hll with rfl | rfl | rfl <;> refine ⟨?_, ?_, ?_, ?_⟩ <;> simp <;> linarith)
  rw [degLL_map] at hvs
  rw [degP_eq]
  refine ⟨poly, hnew, ?_, ?_, ?_⟩
  · rw [contains_eq_count poly hb, hvs, edges_three]
    -- the three tests
    have t1 : (isInLonRange degP degW degU && Num.gt (dot degP (npCross degW degU)) (Num.zero : ℝ)) = true := by
      rw [Bool.and_eq_true, is_in_lon_range_spec, r_gt, r_zero, decide_eq_true_iff]
      constructor
      · show LonRange π 0 (π / 4)
        rw [lonRange_nowrap _ _ _ (by rw [abs_le]; constructor <;> linarith), min_eq_right (by linarith),
          max_eq_left (by linarith)]
        constructor <;> linarith
      · have hc : cross degW degU = (0, 1, 0) := by
          simp only [cross, degW, degU, Prod.mk.injEq]
          refine ⟨by ring, by nlinarith, by ring⟩
        unfold npCross
        rw [hc]
        simp [dot, degP]
    have t2 : (isInLonRange degP degU degV && Num.gt (dot degP (npCross degU degV)) (Num.zero : ℝ)) = false := by
      rw [Bool.and_eq_false_iff]
      right
      rw [r_gt, r_zero, decide_eq_false_iff_not, not_lt]
      have hc : cross degU degV = (-(√2 / 2), 0, √2 / 2) := by
        simp only [cross, degU, degV, Prod.mk.injEq]
        refine ⟨by ring, by ring, by ring⟩
      unfold npCross
      rw [hc]
      rw [if_neg (by simp; positivity)]
      simp only [dot, degP]
      nlinarith
    have t3 : (isInLonRange degP degV degW && Num.gt (dot degP (npCross degV degW)) (Num.zero : ℝ)) = false := by
      rw [Bool.and_eq_false_iff]
      left
      rw [← Bool.not_eq_true, is_in_lon_range_spec]
      show ¬ LonRange (π / 2) π (π / 4)
      rw [lonRange_nowrap _ _ _ (by rw [abs_le]; constructor <;> linarith), min_eq_left (by linarith),
        max_eq_right (by linarith)]
      intro h; linarith [h.1]
    have hcsp : containsSouthPoleBasic [degU, degV, degW] = false := by
      rw [csp_eq]
      have n1 : ¬ (π / 4 < 0) := by linarith
      simp [List.foldl, cspStep, degU, degV, degW, n1]
    simp [t1, t2, t3, hcsp, oddB]
  · simp only [dot, cross, degP, degU, degV]
    nlinarith
  · simp only [dot, cross, degP, degU, degW]
    nlinarith

/-! ### the south-pole heuristic, on the `Float` instance -/

private def fcontains (vs : List (Float × Float)) (p : Float × Float) : Option Bool :=
  match Polygon.new (α := Float) false vs, fromSphCoo false p.1 p.2 with
  | some poly, some c => some (poly.contains c)
  | _, _ => none

#guard (Polygon.new (α := Float) false [(1.14, 0.21), (0.59, 0.24), (5.04, -1.47), (2.30, -0.91)]).map (·.containsSouthPole) == some false
#guard fcontains [(1.14, 0.21), (0.59, 0.24), (5.04, -1.47), (2.30, -0.91)] (1.0, -1.5) == some false  -- inside
#guard fcontains [(1.14, 0.21), (0.59, 0.24), (5.04, -1.47), (2.30, -0.91)] (1.0, 0.0) == some false   -- inside
#guard fcontains [(1.14, 0.21), (0.59, 0.24), (5.04, -1.47), (2.30, -0.91)] (1.0, 1.0) == some true    -- outside
#guard fcontains [(1.14, 0.21), (0.59, 0.24), (5.04, -1.47), (2.30, -0.91)] (4.0, 0.5) == some true    -- outside

end Hpx.Sph
