import HpxVerif.Model.Num
import Mathlib.Analysis.SpecialFunctions.Trigonometric.Inverse
import Mathlib.Analysis.SpecialFunctions.Complex.Arg
import Mathlib.Analysis.SpecialFunctions.Sqrt
import Mathlib.Tactic.Ring
import Mathlib.Tactic.Linarith
import Mathlib.Tactic.NormNum

/-!
The exact instance of the numeric interface: `α := ℝ` with the mathematical constants and functions.
The theorems "over the reals" are statements about the model functions instantiated here.
-/

namespace Hpx

/-- exact value of a (finite) double given by its bit pattern -/
def F64.toRat (b : Nat) : ℚ :=
  let e := F64.expF b
  let m := F64.manF b
  let s : ℚ := if F64.sgnF b = 1 then -1 else 1
  if e = 0 then s * m * (2 : ℚ) ^ (-1074 : ℤ) else s * (2 ^ 52 + m) * (2 : ℚ) ^ ((e : ℤ) - 1075)

open Classical in
noncomputable instance : Num ℝ where
  lt a b := decide (a < b)
  le a b := decide (a ≤ b)
  ofNat n := n
  ofInt n := n
  lit b := ((F64.toRat b : ℚ) : ℝ)
  pi := Real.pi
  halfPi := Real.pi / 2
  twicePi := 2 * Real.pi
  piOverFour := Real.pi / 4
  fourOverPi := 4 / Real.pi
  sqrt6 := Real.sqrt 6
  oneOverSqrt6 := 1 / Real.sqrt 6
  transitionLat := Real.arcsin (2 / 3)
  transitionZ := 2 / 3
  oneOverTransitionZ := 3 / 2
  epsPole := ((F64.toRat Gen.cEpsPole : ℚ) : ℝ)
  latOfSquareCell := Real.arccos (Real.sqrt (2 / 3 * (4 / Real.pi)))
  cosLatOfSquareCell := Real.sqrt (2 / 3 * (4 / Real.pi))
  sin := Real.sin
  cos := Real.cos
  asin := Real.arcsin
  acos := Real.arccos
  sqrt := Real.sqrt
  atan2 y x := Complex.arg ⟨x, y⟩
  abs x := |x|
  signBit x := decide (x < 0)
  orSign x s := if s then -|x| else x
  truncU8 x := min ⌊max x 0⌋₊ 255
  truncU32 x := min ⌊max x 0⌋₊ (2 ^ 32 - 1)
  truncU64 x := min ⌊max x 0⌋₊ (2 ^ 64 - 1)
  scale2 x k := x * (2 : ℝ) ^ k
  truncScaleU32 x k := min ⌊max (x * (2 : ℝ) ^ k) 0⌋₊ (2 ^ 32 - 1)
  fmax := max
  fmin := min
  rem x y := x - y * (if 0 ≤ x / y then (⌊x / y⌋ : ℝ) else (⌈x / y⌉ : ℝ))
  isNaN _ := false
  toBits _ := 0

/-- value of a literal from its fields -/
theorem toRat_of_fields (b e m : Nat) (he : F64.expF b = e) (hm : F64.manF b = m) (hs : F64.sgnF b = 0) (he0 : e ≠ 0) :
    F64.toRat b = (2 ^ 52 + m) * (2 : ℚ) ^ ((e : ℤ) - 1075) := by
  unfold F64.toRat
  simp [he, hm, hs, he0]

theorem lit_050 : (Num.lit (α := ℝ) 0x3FE0000000000000) = 1 / 2 := by
  show ((F64.toRat 0x3FE0000000000000 : ℚ) : ℝ) = 1 / 2
  rw [toRat_of_fields _ 1022 0 (by decide) (by decide) (by decide) (by decide)]
  norm_num
theorem lit_075 : (Num.lit (α := ℝ) 0x3FE8000000000000) = 3 / 4 := by
  show ((F64.toRat 0x3FE8000000000000 : ℚ) : ℝ) = 3 / 4
  rw [toRat_of_fields _ 1022 0x8000000000000 (by decide) (by decide) (by decide) (by decide)]
  norm_num
theorem lit_125 : (Num.lit (α := ℝ) 0x3FF4000000000000) = 5 / 4 := by
  show ((F64.toRat 0x3FF4000000000000 : ℚ) : ℝ) = 5 / 4
  rw [toRat_of_fields _ 1023 0x4000000000000 (by decide) (by decide) (by decide) (by decide)]
  norm_num
theorem lit_150 : (Num.lit (α := ℝ) 0x3FF8000000000000) = 3 / 2 := by
  show ((F64.toRat 0x3FF8000000000000 : ℚ) : ℝ) = 3 / 2
  rw [toRat_of_fields _ 1023 0x8000000000000 (by decide) (by decide) (by decide) (by decide)]
  norm_num

end Hpx
