import HpxVerif.Lemmas.EConeBmoc

/-!
# C13 on the BMOC RETURNED by `elliptical_cone_coverage` (part 2: the cell list, the compaction, the theorems)

`elliptical_cone_coverage(depth, lon, lat, a, b, pa)` is `Sph.ellipticalConeCoverageCustom … depth 0 …`
(`ellipticalConeCoverage` below).  Ellipses whose bounding disc stays in the equatorial band, `|lat| + a < tl`; ℝ, BOTH
profiles (`cfg.debug` arbitrary: a run of the debug profile that does not panic computes the radii of the release profile).

* `ellInternal_split`: the two shapes of the list of `elliptical_cone_coverage_internal` (`ds < depth`: descents from the
  start cells; `depth ≤ ds`: filtered start cells degraded to `depth`), with the start cells of `ConeBmoc.IsStartCell`
  for the radius `a`;
* `ellInternal_good`, `ellInternal_good_circular`, `ellInternal_circular_no_miss`, `ellInternal_centre_kept` (+ `_small`);
* **`elliptical_cone_coverage_circular_no_miss_equatorial`** (`a = b`),
  **`elliptical_cone_coverage_circular_full_inside_equatorial`** (`a = b`),
  **`elliptical_cone_coverage_centre_cell_kept_equatorial`** (`0 < b ≤ a`), with the `_small` / `_plane` forms for the branch
  `depth < ds`.

The `custom` variant and the examples are in `Lemmas/EConeBmoc3.lean`.
-/

namespace Hpx.EConeBmoc
open Hpx Hpx.Hash Hpx.C2V Hpx.C2VReal Hpx.Proj Hpx.Cover Hpx.CellReal Hpx.EnvelopeReal Hpx.TopoLift Hpx.CellExtent
open Hpx.Sph Hpx.Bmoc Hpx.Tightness Hpx.EConeEq Hpx.ConeBmoc Real

/-- `elliptical_cone_coverage(depth, lon, lat, a, b, pa)`: the `custom` function with `delta_depth = 0` -/
abbrev ellipticalConeCoverage {α : Type} [Num α] (cfg : Cfg) (depth : Nat) (lon lat a b pa : α) : Option BMOC :=
  ellipticalConeCoverageCustom cfg depth 0 lon lat a b pa

/-- the classifier of the descent of the elliptical cone -/
noncomputable abbrev κe (cfg : Cfg) (depth : ℕ) (lon lat a b pa : ℝ) (dists : List ℝ) :
    Nat → Nat → Nat → Option Verdict :=
  ellClassifier (α := ℝ) cfg depth (ECone.new lon lat a b pa) dists

/-! ## the two shapes of the list of `elliptical_cone_coverage_internal` -/

/-- **`ellInternal_split`** (both profiles, `|lat| + a < tl`, `b < π`): with `ds = best_starting_depth(a)` (it exists), the
    list of `elliptical_cone_coverage_internal` is
    * either (`ds < depth`) the concatenation of the descents from the start cells of depth `ds`, with the list of radii of
      the release profile,
    * or (`depth ≤ ds`) a list of partial cells of depth `depth` that contains the ancestor of every start cell that passes
      the test `contains ∨ overlap_cone` with the release value of
      `largest_center_to_vertex_distance_with_radius(ds, lon, lat, a)`. -/
theorem ellInternal_split (cfg : Cfg) (depth : ℕ) (lon lat a b pa : ℝ) (hA : |lat| + a < tl) (hbpi : b < π)
    (cells : List Cell) (h : ellInternal cfg depth lon lat a b pa = some cells) :
    ∃ ds, bestStartingDepth a = some ds ∧ ds ≤ 29 ∧
    ((ds < depth ∧ ∃ dists, largestC2VsWithRadius false ds (depth + 1) lon lat a = some dists ∧
      (∀ c ∈ cells, ∃ root o, coverRec depth (κe cfg depth lon lat a b pa dists) (depth + 2) ds root 0 = some o ∧ c ∈ o) ∧
      (∀ ds' root, IsStartCell cfg lon lat a ds' root → ds' = ds ∧
        ∃ o, coverRec depth (κe cfg depth lon lat a b pa dists) (depth + 2) ds root 0 = some o ∧ ∀ c ∈ o, c ∈ cells)) ∨
    (depth ≤ ds ∧ (∀ c ∈ cells, c.full = false ∧ c.depth = depth) ∧
      (∀ ds' root, IsStartCell cfg lon lat a ds' root → ds' = ds ∧
        ∃ (en : MW × ℕ) (k : Bool), en.2 = root ∧
          keepTest cfg (ECone.new lon lat a b pa) ds (valR ds lon lat a) en = some k ∧
          (k = true → ({ depth := depth, hash := root / 4 ^ (ds - depth), full := false } : Cell) ∈ cells)))) := by
  have ha2 := lt_halfPi_of_band lat a hA
  obtain ⟨hbest, ds, hds⟩ := band_has_start_depth lat a hA
  have hd29 := bestStartingDepth_le a ds hds
  have hstart : ∀ ds' root, IsStartCell cfg lon lat a ds' root → ds' = ds ∧ ∃ h0 nm,
      Hash.hashV2 cfg ds lon lat = some h0 ∧ Topo.neighbours cfg ds h0 true = some nm ∧ root ∈ nm.map (·.2) := by
    intro ds' root hst
    rcases hst with ⟨hb, _⟩ | ⟨_, hds', h0, nm, hh0, hnm, hroot⟩
    · rw [hbest] at hb; cases hb
    · rw [hds] at hds'
      cases Option.some.inj hds'
      exact ⟨rfl, h0, nm, hh0, hnm, hroot⟩
  refine ⟨ds, hds, hd29, ?_⟩
  rcases Nat.lt_or_ge ds depth with hlt | hge
  · left
    obtain ⟨h0, nm, dists, hh0, hnm, hdists, hfold⟩ := ellInternal_start_branch cfg depth lon lat a b pa ha2 hbpi hbest ds hds
      hlt cells h
    have hdists' : largestC2VsWithRadius false ds (depth + 1) lon lat a = some dists := by
      cases hb : cfg.debug
      · rwa [hb] at hdists
      · rw [hb] at hdists; exact largestC2VsWithRadius_debug ds (depth + 1) lon lat a dists hdists
    obtain ⟨_, g2, g3⟩ := foldlM_append_spec _ _ _ _ hfold
    refine ⟨hlt, dists, hdists', ?_, ?_⟩
    · intro c hc
      rcases g3 c hc with h1 | ⟨root, _, o, ho, hco⟩
      · simp at h1
      · exact ⟨root, o, ho, hco⟩
    · intro ds' root hst
      obtain ⟨e, h0', nm', hh0', hnm', hroot⟩ := hstart ds' root hst
      rw [hh0] at hh0'
      cases Option.some.inj hh0'
      rw [hnm] at hnm'
      cases Option.some.inj hnm'
      exact ⟨e, g2 root ((Hpx.Sph.mem_sortNat root _).mpr hroot)⟩
  · right
    obtain ⟨h0, nm, dist, l, hh0, hnm, hdist, hfold, rfl⟩ := ellInternal_shallow_branch cfg depth lon lat a b pa ha2 hbpi
      hbest ds hds hge cells h
    have hdist' : dist = valR ds lon lat a := by
      have hrel : largestC2VWithRadius false ds lon lat a = some dist := by
        cases hb : cfg.debug
        · rwa [hb] at hdist
        · rw [hb] at hdist; exact largestC2VWithRadius_debug ds lon lat a dist hdist
      rw [valR_spec ds hd29] at hrel
      exact (Option.some.inj hrel).symm
    subst hdist'
    refine ⟨hge, ?_, ?_⟩
    · intro c hc
      obtain ⟨_, _, rfl⟩ := List.mem_map.mp hc
      exact ⟨rfl, rfl⟩
    · intro ds' root hst
      obtain ⟨e, h0', nm', hh0', hnm', hroot⟩ := hstart ds' root hst
      rw [hh0] at hh0'
      cases Option.some.inj hh0'
      rw [hnm] at hnm'
      cases Option.some.inj hnm'
      obtain ⟨en, hen, rfl⟩ := List.mem_map.mp hroot
      obtain ⟨_, g2⟩ := filter_fold_spec _ _ _ _ _ hfold
      obtain ⟨k, hk, hkl⟩ := g2 en hen
      refine ⟨e, en, k, rfl, hk, fun hkt => ?_⟩
      have := hkl hkt
      rw [shr_eq_div] at this
      exact List.mem_map.mpr ⟨_, (Hpx.Sph.mem_dedup_sort _ _).mpr this, rfl⟩

/-! ## the test of the branch `depth ≤ ds` keeps what it must -/

/-- circular ellipse: a strictly equatorial start cell that contains a position of the disc passes the test -/
theorem keep_circular (cfg : Cfg) (lon lat a pa : ℝ) (ha : 0 < a) (hA : |lat| + a < tl) (hmin : 1 / 2 ^ 1024 < sin a)
    (ds : ℕ) (hd29 : ds ≤ 29) (en : MW × ℕ) (k : Bool)
    (hk : keepTest cfg (ECone.new lon lat a a pa) ds (valR ds lon lat a) en = some k) (q : ℝ × ℝ)
    (hq : InCellEq ds en.2 q) (hin : adist q (lon, lat) ≤ a) : k = true := by
  have ha2 := lt_halfPi_of_band lat a hA
  cases k with
  | true => rfl
  | false =>
    exfalso
    obtain ⟨c, hc, hnc, hov⟩ := keepTest_false _ _ _ _ _ hk
    have hD2 := valR_le ds lon lat a ha.le hA
    have hpi := Real.pi_gt_three
    have hlt := Sph.circular_skip_sound lon lat a pa c.1 c.2 _ ⟨ha, ha2⟩ hmin (by linarith)
      (by linarith [tl_le, abs_nonneg lat]) hnc hov
    rw [Prod.mk.eta] at hlt
    have hle := H1_equatorial_meet_scalar cfg lon lat a hA ds hd29 en.2 c q q hc hq hq (by rw [adist_comm]; exact hin)
    have htri := adist_triangle c q (lon, lat)
    linarith

/-- general ellipse: a strictly equatorial start cell that contains the centre `(lon, lat)` passes the test -/
theorem keep_centre (cfg : Cfg) (lon lat a b pa : ℝ) (hb : 0 < b) (hba : b ≤ a) (hA : |lat| + a < tl)
    (hmin : 1 / 2 ^ 1024 < sin b) (ds : ℕ) (hd29 : ds ≤ 29) (en : MW × ℕ) (k : Bool)
    (hk : keepTest cfg (ECone.new lon lat a b pa) ds (valR ds lon lat a) en = some k)
    (hq : InCellEq ds en.2 (lon, lat)) : k = true := by
  have ha0 : 0 < a := lt_of_lt_of_le hb hba
  have ha2 := lt_halfPi_of_band lat a hA
  cases k with
  | true => rfl
  | false =>
    exfalso
    obtain ⟨c, hc, hnc, hov⟩ := keepTest_false _ _ _ _ _ hk
    have hD2 := valR_le ds lon lat a ha0.le hA
    have hpi := Real.pi_gt_three
    have hlt := centre_skip_sound lon lat a b pa c.1 c.2 _ hb hba ha2 hmin (by linarith) hnc hov
    rw [Prod.mk.eta] at hlt
    have hle := H1_equatorial_meet_scalar cfg lon lat a hA ds hd29 en.2 c (lon, lat) (lon, lat) hc hq hq
      (by rw [adist_self]; exact ha0.le)
    linarith

/-! ## the list of `elliptical_cone_coverage_internal`: good cells, nothing missed -/

/-- **every cell of the list handed to the builder is good** (general ellipse `0 < b ≤ a`) -/
theorem ellInternal_good (cfg : Cfg) (depth : ℕ) (hd : depth ≤ 29) (lon lat a b pa : ℝ) (hb : 0 < b) (hba : b ≤ a)
    (hA : |lat| + a < tl) (cells : List Cell) (h : ellInternal cfg depth lon lat a b pa = some cells) :
    ∀ c ∈ cells, GoodCellG (fun _ => True) (fun _ => True) depth c := by
  obtain ⟨hw, hrange⟩ := CoverAll.ellInternal_wf cfg depth lon lat a b pa cells h
  have hpi := Real.pi_gt_three
  have ha2 := lt_halfPi_of_band lat a hA
  intro c hc
  obtain ⟨ds, _, _, ⟨hlt, dists, hdists, hmem, _⟩ | ⟨_, hall, _⟩⟩ :=
    ellInternal_split cfg depth lon lat a b pa hA (by linarith) cells h
  · obtain ⟨root, o, ho, hco⟩ := hmem c hc
    exact coverRec_ell_good cfg lon lat a b pa hb hba hA ds depth hlt.le hd dists hdists _ root o ho c hco
      (hw.depth_le c hc) (hrange c hc)
  · obtain ⟨h1, h2⟩ := hall c hc
    exact ⟨fun hf => (by rw [h1] at hf; cases hf), fun _ => h2⟩

/-- **every cell of the list handed to the builder is good, circular ellipse `a = b`**: every position of a full cell is
    within `a` of `(lon, lat)`, unless the cell is at the deepest depth with its four vertices within `a` -/
theorem ellInternal_good_circular (cfg : Cfg) (depth : ℕ) (hd : depth ≤ 29) (lon lat a pa : ℝ) (ha : 0 < a)
    (hA : |lat| + a < tl) (cells : List Cell) (h : ellInternal cfg depth lon lat a a pa = some cells) :
    ∀ c ∈ cells, GoodCellG (fun q => adist q (lon, lat) ≤ a) (VtxInside cfg lon lat a depth) depth c := by
  obtain ⟨hw, hrange⟩ := CoverAll.ellInternal_wf cfg depth lon lat a a pa cells h
  have hpi := Real.pi_gt_three
  have ha2 := lt_halfPi_of_band lat a hA
  intro c hc
  obtain ⟨ds, _, _, ⟨hlt, dists, hdists, hmem, _⟩ | ⟨_, hall, _⟩⟩ :=
    ellInternal_split cfg depth lon lat a a pa hA (by linarith) cells h
  · obtain ⟨root, o, ho, hco⟩ := hmem c hc
    exact coverRec_ell_good_circular cfg lon lat a pa ha hA ds depth hlt.le hd dists hdists _ root o ho c hco
      (hw.depth_le c hc) (hrange c hc)
  · obtain ⟨h1, h2⟩ := hall c hc
    exact ⟨fun hf => (by rw [h1] at hf; cases hf), fun _ => h2⟩

/-- **nothing is missed, cell list, circular ellipse, `ds ≤ depth`** -/
theorem ellInternal_circular_no_miss (cfg : Cfg) (depth : ℕ) (hd : depth ≤ 29) (lon lat a pa : ℝ) (ha : 0 < a)
    (hA : |lat| + a < tl) (hmin : 1 / 2 ^ 1024 < sin a) (cells : List Cell)
    (h : ellInternal cfg depth lon lat a a pa = some cells)
    (ds root : ℕ) (hst : IsStartCell cfg lon lat a ds root) (hds : ds ≤ depth) (q : ℝ × ℝ)
    (hq : InCellEq ds root q) (hin : adist q (lon, lat) ≤ a) : ∃ c ∈ cells, InCellEq c.depth c.hash q := by
  have hpi := Real.pi_gt_three
  have ha2 := lt_halfPi_of_band lat a hA
  obtain ⟨ds0, _, hd29, ⟨hlt, dists, hdists, _, hroots⟩ | ⟨hge, _, hroots⟩⟩ :=
    ellInternal_split cfg depth lon lat a a pa hA (by linarith) cells h
  · obtain ⟨e, o, ho, hsub⟩ := hroots ds root hst
    subst e
    obtain ⟨c, hc, hcq⟩ := econe_circular_no_miss_equatorial cfg lon lat a pa ha hA hmin ds depth hlt.le hd dists hdists
      _ root o ho q hq hin
    exact ⟨c, hsub c hc, hcq⟩
  · obtain ⟨e, en, k, hen, hk, hkeep⟩ := hroots ds root hst
    subst e
    have hdd : ds = depth := by omega
    subst hdd
    subst hen
    have := hkeep (keep_circular cfg lon lat a pa ha hA hmin ds hd29 en k hk q hq hin)
    refine ⟨_, this, ?_⟩
    simp only [Nat.sub_self, Nat.pow_zero, Nat.div_one]
    exact hq

/-- **nothing is missed, cell list, circular ellipse, branch `depth < ds`**: the ancestor at `depth` of a strictly
    equatorial start cell that contains a position of the disc is in the list (flagged partial) -/
theorem ellInternal_circular_no_miss_small (cfg : Cfg) (depth : ℕ) (lon lat a pa : ℝ) (ha : 0 < a)
    (hA : |lat| + a < tl) (hmin : 1 / 2 ^ 1024 < sin a) (cells : List Cell)
    (h : ellInternal cfg depth lon lat a a pa = some cells)
    (ds root : ℕ) (hst : IsStartCell cfg lon lat a ds root) (hds : depth < ds) (q : ℝ × ℝ)
    (hq : InCellEq ds root q) (hin : adist q (lon, lat) ≤ a) :
    ({ depth := depth, hash := root / 4 ^ (ds - depth), full := false } : Cell) ∈ cells := by
  have hpi := Real.pi_gt_three
  have ha2 := lt_halfPi_of_band lat a hA
  obtain ⟨ds0, _, hd29, ⟨hlt, dists, hdists, _, hroots⟩ | ⟨hge, _, hroots⟩⟩ :=
    ellInternal_split cfg depth lon lat a a pa hA (by linarith) cells h
  · obtain ⟨e, _⟩ := hroots ds root hst
    omega
  · obtain ⟨e, en, k, hen, hk, hkeep⟩ := hroots ds root hst
    subst e
    subst hen
    exact hkeep (keep_circular cfg lon lat a pa ha hA hmin ds hd29 en k hk q hq hin)

/-- **the cell of the centre is kept, cell list, general ellipse, `ds ≤ depth`** -/
theorem ellInternal_centre_kept (cfg : Cfg) (depth : ℕ) (hd : depth ≤ 29) (lon lat a b pa : ℝ) (hb : 0 < b)
    (hba : b ≤ a) (hA : |lat| + a < tl) (hmin : 1 / 2 ^ 1024 < sin b) (cells : List Cell)
    (h : ellInternal cfg depth lon lat a b pa = some cells)
    (ds root : ℕ) (hst : IsStartCell cfg lon lat a ds root) (hds : ds ≤ depth)
    (hq : InCellEq ds root (lon, lat)) : ∃ c ∈ cells, InCellEq c.depth c.hash (lon, lat) := by
  have hpi := Real.pi_gt_three
  have ha2 := lt_halfPi_of_band lat a hA
  obtain ⟨ds0, _, hd29, ⟨hlt, dists, hdists, _, hroots⟩ | ⟨hge, _, hroots⟩⟩ :=
    ellInternal_split cfg depth lon lat a b pa hA (by linarith) cells h
  · obtain ⟨e, o, ho, hsub⟩ := hroots ds root hst
    subst e
    obtain ⟨c, hc, hcq⟩ := econe_centre_cell_kept_equatorial cfg lon lat a b pa hb hba hA hmin ds depth hlt.le hd dists
      hdists _ root o ho hq
    exact ⟨c, hsub c hc, hcq⟩
  · obtain ⟨e, en, k, hen, hk, hkeep⟩ := hroots ds root hst
    subst e
    have hdd : ds = depth := by omega
    subst hdd
    subst hen
    have := hkeep (keep_centre cfg lon lat a b pa hb hba hA hmin ds hd29 en k hk hq)
    refine ⟨_, this, ?_⟩
    simp only [Nat.sub_self, Nat.pow_zero, Nat.div_one]
    exact hq

/-- **the cell of the centre is kept, cell list, general ellipse, branch `depth < ds`** -/
theorem ellInternal_centre_kept_small (cfg : Cfg) (depth : ℕ) (lon lat a b pa : ℝ) (hb : 0 < b)
    (hba : b ≤ a) (hA : |lat| + a < tl) (hmin : 1 / 2 ^ 1024 < sin b) (cells : List Cell)
    (h : ellInternal cfg depth lon lat a b pa = some cells)
    (ds root : ℕ) (hst : IsStartCell cfg lon lat a ds root) (hds : depth < ds)
    (hq : InCellEq ds root (lon, lat)) :
    ({ depth := depth, hash := root / 4 ^ (ds - depth), full := false } : Cell) ∈ cells := by
  have hpi := Real.pi_gt_three
  have ha2 := lt_halfPi_of_band lat a hA
  obtain ⟨ds0, _, hd29, ⟨hlt, dists, hdists, _, hroots⟩ | ⟨hge, _, hroots⟩⟩ :=
    ellInternal_split cfg depth lon lat a b pa hA (by linarith) cells h
  · obtain ⟨e, _⟩ := hroots ds root hst
    omega
  · obtain ⟨e, en, k, hen, hk, hkeep⟩ := hroots ds root hst
    subst e
    subst hen
    exact hkeep (keep_centre cfg lon lat a b pa hb hba hA hmin ds hd29 en k hk hq)

/-! ## from the list to the BMOC: generic steps -/

/-- the cell number of `q` at the depth `D` of the list, from the two list-level statements (`ConeBmoc3`'s
    `coneInternal_no_miss_number`, for any list) -/
theorem number_form (D : ℕ) (hd : D ≤ 29) (cells : List Cell) (hw : WF D cells) (ds root : ℕ) (q : ℝ × ℝ)
    (hq : InCellEq ds root q) (h1 : ds ≤ D → ∃ c ∈ cells, InCellEq c.depth c.hash q)
    (h2 : D < ds → ({ depth := D, hash := root / 4 ^ (ds - D), full := false } : Cell) ∈ cells) :
    ∃ c ∈ cells, ∃ x, x / 4 ^ (D - c.depth) = c.hash ∧ InCellPlane D x q ∧ (ds ≤ D → InCellEq D x q) ∧
      (D < ds → x = root / 4 ^ (ds - D) ∧ c = ⟨D, x, false⟩) := by
  rcases Nat.lt_or_ge D ds with hlt | hge
  · refine ⟨_, h2 hlt, root / 4 ^ (ds - D), by simp, ?_, fun h' => by omega, fun _ => ⟨rfl, rfl⟩⟩
    exact inCellPlane_ancestor' ds D root (by omega) q (inCellEq_plane ds root q hq)
  · obtain ⟨c, hc, hcq⟩ := h1 hge
    obtain ⟨x, hx, hxq, _⟩ := inCellEq_descend' D c.depth c.hash q (hw.depth_le c hc) hd hcq
    exact ⟨c, hc, x, hx, inCellEq_plane D x q hxq, fun _ => hxq, fun h' => by omega⟩

/-- a position of a cell of the list is a position of an entry of the compacted BMOC -/
theorem packed_no_miss (P : ℝ × ℝ → Prop) (V : ℕ → Prop) (D : ℕ) (hD : D ≤ 29) (cells : List Cell) (hw : WF D cells)
    (hr : ∀ c ∈ cells, InRange c) (hg : ∀ c ∈ cells, GoodCellG P V D c) (c : Cell) (hc : c ∈ cells) (q : ℝ × ℝ)
    (hcq : InCellEq c.depth c.hash q) :
    ∃ e ∈ pack D (cells.map (encode D)), InCellEq (decode e D).depth (decode e D).hash q := by
  obtain ⟨g1, g2⟩ := packedG_good P V D hD cells hw hr hg
  obtain ⟨x, hx, hxq, _⟩ := inCellEq_descend' D c.depth c.hash q (hw.depth_le c hc) hD hcq
  obtain ⟨e, he, k1, k2, _⟩ := g2 c hc x hx
  exact ⟨e, he, goodCellG_contains P V D _ (g1 e he) k1 x k2 q hxq⟩

/-- a partial cell of depth `D` of the list is an entry of the compacted BMOC -/
theorem packed_partial_kept (P : ℝ × ℝ → Prop) (V : ℕ → Prop) (D : ℕ) (hD : D ≤ 29) (cells : List Cell) (hw : WF D cells)
    (hr : ∀ c ∈ cells, InRange c) (hg : ∀ c ∈ cells, GoodCellG P V D c) (x : ℕ)
    (hc : ({ depth := D, hash := x, full := false } : Cell) ∈ cells) :
    ∃ e ∈ pack D (cells.map (encode D)), (decode e D).depth = D ∧ (decode e D).hash = x ∧ (decode e D).full = false := by
  obtain ⟨g1, g2⟩ := packedG_good P V D hD cells hw hr hg
  obtain ⟨e, he, k1, k2, k3⟩ := g2 _ hc x (by simp)
  have hdep := (g1 e he).2 k3
  rw [hdep, Nat.sub_self, Nat.pow_zero, Nat.div_one] at k2
  exact ⟨e, he, hdep, k2.symm, k3⟩

/-! ## what `elliptical_cone_coverage` returns -/

theorem ellipticalConeCoverage_unfold (cfg : Cfg) (depth : ℕ) (lon lat a b pa : ℝ) (m : BMOC)
    (h : ellipticalConeCoverage (α := ℝ) cfg depth lon lat a b pa = some m) :
    depth ≤ 29 ∧ ∃ cells, ellInternal cfg depth lon lat a b pa = some cells ∧
      m = { dmax := depth, entries := pack depth (cells.map (encode depth)) } := by
  unfold ellipticalConeCoverage ellipticalConeCoverageCustom at h
  split at h
  · simp at h
  · rename_i hd
    simp only [beq_self_eq_true, if_true, Option.map_eq_some_iff] at h
    obtain ⟨cells, hcells, rfl⟩ := h
    exact ⟨by omega, cells, hcells, rfl⟩

/-! ## the theorems on the returned BMOC -/

/-- **`elliptical_cone_coverage_circular_no_miss_equatorial`** (ℝ, both profiles, every `depth ≤ 29`).  Circular elliptical
    cone `a = b`, any position angle, `0 < a`, `|lat| + a < tl`, `sin a > 2^-1024`; `m` the BMOC returned by
    `elliptical_cone_coverage(depth, lon, lat, a, a, pa)`.  For every start cell `root` of depth
    `ds = best_starting_depth(a) ≤ depth` (`IsStartCell`: the cell of the centre at depth `ds` or one of its neighbours) and
    every position `q` within `a` of `(lon, lat)` that lies in `root`, a strictly equatorial cell, there is an ENTRY of `m`
    whose cell contains `q` — a cell emitted by the descent or a parent created by the compaction. -/
theorem elliptical_cone_coverage_circular_no_miss_equatorial (cfg : Cfg) (depth : ℕ) (lon lat a pa : ℝ) (ha : 0 < a)
    (hA : |lat| + a < tl) (hmin : 1 / 2 ^ 1024 < sin a) (m : BMOC)
    (h : ellipticalConeCoverage (α := ℝ) cfg depth lon lat a a pa = some m)
    (ds root : ℕ) (hst : IsStartCell cfg lon lat a ds root) (hds : ds ≤ depth) (q : ℝ × ℝ)
    (hq : InCellEq ds root q) (hin : adist q (lon, lat) ≤ a) :
    ∃ e ∈ m.entries, InCellEq (decode e depth).depth (decode e depth).hash q := by
  obtain ⟨hd, cells, hcells, rfl⟩ := ellipticalConeCoverage_unfold cfg depth lon lat a a pa m h
  obtain ⟨hw, hrange⟩ := CoverAll.ellInternal_wf cfg depth lon lat a a pa cells hcells
  obtain ⟨c, hc, hcq⟩ := ellInternal_circular_no_miss cfg depth hd lon lat a pa ha hA hmin cells hcells ds root hst hds q hq hin
  exact packed_no_miss _ _ depth hd cells hw hrange
    (ellInternal_good cfg depth hd lon lat a a pa ha le_rfl hA cells hcells) c hc q hcq

/-- **no miss, branch `depth < ds = best_starting_depth(a)`**: the reported cells are the ancestors at `depth` of the tested
    cells of depth `ds`.  For every strictly equatorial start cell `root` that contains a position `q` of the disc, the BMOC
    has the entry `(depth, root >> 2(ds − depth))`, flagged partial, and `q` is a position of that cell in the sense of
    `InCellPlane` — and of `InCellEq` as soon as that ancestor is strictly equatorial. -/
theorem elliptical_cone_coverage_circular_no_miss_small (cfg : Cfg) (depth : ℕ) (lon lat a pa : ℝ) (ha : 0 < a)
    (hA : |lat| + a < tl) (hmin : 1 / 2 ^ 1024 < sin a) (m : BMOC)
    (h : ellipticalConeCoverage (α := ℝ) cfg depth lon lat a a pa = some m)
    (ds root : ℕ) (hst : IsStartCell cfg lon lat a ds root) (hds : depth < ds) (q : ℝ × ℝ)
    (hq : InCellEq ds root q) (hin : adist q (lon, lat) ≤ a) :
    ∃ e ∈ m.entries, (decode e depth).depth = depth ∧ (decode e depth).hash = root >>> ((ds - depth) <<< 1) ∧
      (decode e depth).full = false ∧ InCellPlane depth (root >>> ((ds - depth) <<< 1)) q ∧
      (|pcy depth (root >>> ((ds - depth) <<< 1))| < 1 → InCellEq depth (root >>> ((ds - depth) <<< 1)) q) := by
  obtain ⟨hd, cells, hcells, rfl⟩ := ellipticalConeCoverage_unfold cfg depth lon lat a a pa m h
  obtain ⟨hw, hrange⟩ := CoverAll.ellInternal_wf cfg depth lon lat a a pa cells hcells
  have hc := ellInternal_circular_no_miss_small cfg depth lon lat a pa ha hA hmin cells hcells ds root hst hds q hq hin
  obtain ⟨e, he, k1, k2, k3⟩ := packed_partial_kept _ _ depth hd cells hw hrange
    (ellInternal_good cfg depth hd lon lat a a pa ha le_rfl hA cells hcells) _ hc
  have hpl := inCellPlane_ancestor' ds depth root (by omega) q (inCellEq_plane ds root q hq)
  rw [shr_eq_div]
  exact ⟨e, he, k1, k2, k3, hpl, fun hband => inCellPlane_eq _ _ q hpl hband⟩

/-- **no miss for every start depth, conclusion in the plane sense**: some entry of the BMOC contains `q` -/
theorem elliptical_cone_coverage_circular_no_miss_plane (cfg : Cfg) (depth : ℕ) (lon lat a pa : ℝ) (ha : 0 < a)
    (hA : |lat| + a < tl) (hmin : 1 / 2 ^ 1024 < sin a) (m : BMOC)
    (h : ellipticalConeCoverage (α := ℝ) cfg depth lon lat a a pa = some m)
    (ds root : ℕ) (hst : IsStartCell cfg lon lat a ds root) (q : ℝ × ℝ)
    (hq : InCellEq ds root q) (hin : adist q (lon, lat) ≤ a) :
    ∃ e ∈ m.entries, InCellPlane (decode e depth).depth (decode e depth).hash q := by
  rcases Nat.lt_or_ge depth ds with hlt | hge
  · obtain ⟨e, he, k1, k2, _, k4, _⟩ := elliptical_cone_coverage_circular_no_miss_small cfg depth lon lat a pa ha hA hmin m h
      ds root hst hlt q hq hin
    exact ⟨e, he, by rw [k1, k2]; exact k4⟩
  · obtain ⟨e, he, k⟩ := elliptical_cone_coverage_circular_no_miss_equatorial cfg depth lon lat a pa ha hA hmin m h ds root
      hst hge q hq hin
    exact ⟨e, he, inCellEq_plane _ _ q k⟩

/-- **every entry of the BMOC returned by `elliptical_cone_coverage`, circular ellipse, is a good cell**: a FULL entry (emitted
    by the descent or created by the compaction) is not centred on the transition latitude, and each of its positions is
    within `a` of `(lon, lat)` or lies in a cell of depth `depth` under the entry whose four vertices are within `a` of
    `(lon, lat)`; the other entries are at the requested depth -/
theorem elliptical_cone_coverage_circular_good (cfg : Cfg) (depth : ℕ) (lon lat a pa : ℝ) (ha : 0 < a)
    (hA : |lat| + a < tl) (m : BMOC) (h : ellipticalConeCoverage (α := ℝ) cfg depth lon lat a a pa = some m)
    (e : ℕ) (he : e ∈ m.entries) :
    GoodCellG (fun q => adist q (lon, lat) ≤ a) (VtxInside cfg lon lat a depth) depth (decode e depth) := by
  obtain ⟨hd, cells, hcells, rfl⟩ := ellipticalConeCoverage_unfold cfg depth lon lat a a pa m h
  obtain ⟨hw, hrange⟩ := CoverAll.ellInternal_wf cfg depth lon lat a a pa cells hcells
  exact (packedG_good _ _ depth hd cells hw hrange
    (ellInternal_good_circular cfg depth hd lon lat a pa ha hA cells hcells)).1 e he

/-- **`elliptical_cone_coverage_circular_full_inside_equatorial`** (ℝ, both profiles, every `depth ≤ 29`, `a = b`,
    `|lat| + a < tl`).  Let `e` be an entry of the returned BMOC flagged FULL — a cell flagged by the descent or a parent
    created by the compaction of four full cells, at any number of levels — and `q` a position of its cell (`InCellEq`).
    Then EITHER `q` is within `a` of `(lon, lat)`, OR `q` is a position of a cell `x` of the deepest depth `depth` lying under
    the entry (`x / 4^(depth − d_e) = h_e`) whose four VERTICES are within `a` of `(lon, lat)` — the rule by which
    `elliptical_cone_coverage_internal` flags full the cells of the deepest depth (the whole of such a cell is not proved to
    be inside). -/
theorem elliptical_cone_coverage_circular_full_inside_equatorial (cfg : Cfg) (depth : ℕ) (lon lat a pa : ℝ) (ha : 0 < a)
    (hA : |lat| + a < tl) (m : BMOC) (h : ellipticalConeCoverage (α := ℝ) cfg depth lon lat a a pa = some m)
    (e : ℕ) (he : e ∈ m.entries) (hf : (decode e depth).full = true) (q : ℝ × ℝ)
    (hq : InCellEq (decode e depth).depth (decode e depth).hash q) :
    adist q (lon, lat) ≤ a ∨
    ∃ x, x / 4 ^ (depth - (decode e depth).depth) = (decode e depth).hash ∧ InCellEq depth x q ∧
      ∃ vs, Hash.vertices (α := ℝ) cfg depth x = some vs ∧ ∀ v ∈ vs, adist v (lon, lat) ≤ a :=
  ((elliptical_cone_coverage_circular_good cfg depth lon lat a pa ha hA m h e he).1 hf).2 q hq

/-- the entries of the returned BMOC that are not full are at the requested depth (general ellipse) -/
theorem elliptical_cone_coverage_partial_depth (cfg : Cfg) (depth : ℕ) (lon lat a b pa : ℝ) (hb : 0 < b) (hba : b ≤ a)
    (hA : |lat| + a < tl) (m : BMOC) (h : ellipticalConeCoverage (α := ℝ) cfg depth lon lat a b pa = some m)
    (e : ℕ) (he : e ∈ m.entries) :
    ((decode e depth).full = true → |pcy (decode e depth).depth (decode e depth).hash| ≠ 1) ∧
    ((decode e depth).full = false → (decode e depth).depth = depth) := by
  obtain ⟨hd, cells, hcells, rfl⟩ := ellipticalConeCoverage_unfold cfg depth lon lat a b pa m h
  obtain ⟨hw, hrange⟩ := CoverAll.ellInternal_wf cfg depth lon lat a b pa cells hcells
  have := (packedG_good _ _ depth hd cells hw hrange
    (ellInternal_good cfg depth hd lon lat a b pa hb hba hA cells hcells)).1 e he
  exact ⟨fun hf => (this.1 hf).1, this.2⟩

/-- **`elliptical_cone_coverage_centre_cell_kept_equatorial`** (ℝ, both profiles, every `depth ≤ 29`).  General ellipse
    `0 < b ≤ a`, any position angle, `|lat| + a < tl`, `sin b > 2^-1024`.  If the centre `(lon, lat)` is a position of a
    strictly equatorial start cell `root` of depth `ds = best_starting_depth(a) ≤ depth`, then `(lon, lat)` is a position of
    the cell of an ENTRY of the returned BMOC. -/
theorem elliptical_cone_coverage_centre_cell_kept_equatorial (cfg : Cfg) (depth : ℕ) (lon lat a b pa : ℝ) (hb : 0 < b)
    (hba : b ≤ a) (hA : |lat| + a < tl) (hmin : 1 / 2 ^ 1024 < sin b) (m : BMOC)
    (h : ellipticalConeCoverage (α := ℝ) cfg depth lon lat a b pa = some m)
    (ds root : ℕ) (hst : IsStartCell cfg lon lat a ds root) (hds : ds ≤ depth) (hq : InCellEq ds root (lon, lat)) :
    ∃ e ∈ m.entries, InCellEq (decode e depth).depth (decode e depth).hash (lon, lat) := by
  obtain ⟨hd, cells, hcells, rfl⟩ := ellipticalConeCoverage_unfold cfg depth lon lat a b pa m h
  obtain ⟨hw, hrange⟩ := CoverAll.ellInternal_wf cfg depth lon lat a b pa cells hcells
  obtain ⟨c, hc, hcq⟩ := ellInternal_centre_kept cfg depth hd lon lat a b pa hb hba hA hmin cells hcells ds root hst hds hq
  exact packed_no_miss _ _ depth hd cells hw hrange
    (ellInternal_good cfg depth hd lon lat a b pa hb hba hA cells hcells) c hc _ hcq

/-- **the cell of the centre is kept, branch `depth < ds`**: the BMOC has the entry `(depth, root >> 2(ds − depth))`, flagged
    partial, where `root` is the strictly equatorial start cell that contains the centre; the centre is a position of that
    cell in the sense of `InCellPlane`, and of `InCellEq` as soon as that ancestor is strictly equatorial -/
theorem elliptical_cone_coverage_centre_cell_kept_small (cfg : Cfg) (depth : ℕ) (lon lat a b pa : ℝ) (hb : 0 < b)
    (hba : b ≤ a) (hA : |lat| + a < tl) (hmin : 1 / 2 ^ 1024 < sin b) (m : BMOC)
    (h : ellipticalConeCoverage (α := ℝ) cfg depth lon lat a b pa = some m)
    (ds root : ℕ) (hst : IsStartCell cfg lon lat a ds root) (hds : depth < ds) (hq : InCellEq ds root (lon, lat)) :
    ∃ e ∈ m.entries, (decode e depth).depth = depth ∧ (decode e depth).hash = root >>> ((ds - depth) <<< 1) ∧
      (decode e depth).full = false ∧ InCellPlane depth (root >>> ((ds - depth) <<< 1)) (lon, lat) ∧
      (|pcy depth (root >>> ((ds - depth) <<< 1))| < 1 → InCellEq depth (root >>> ((ds - depth) <<< 1)) (lon, lat)) := by
  obtain ⟨hd, cells, hcells, rfl⟩ := ellipticalConeCoverage_unfold cfg depth lon lat a b pa m h
  obtain ⟨hw, hrange⟩ := CoverAll.ellInternal_wf cfg depth lon lat a b pa cells hcells
  have hc := ellInternal_centre_kept_small cfg depth lon lat a b pa hb hba hA hmin cells hcells ds root hst hds hq
  obtain ⟨e, he, k1, k2, k3⟩ := packed_partial_kept _ _ depth hd cells hw hrange
    (ellInternal_good cfg depth hd lon lat a b pa hb hba hA cells hcells) _ hc
  have hpl := inCellPlane_ancestor' ds depth root (by omega) _ (inCellEq_plane ds root _ hq)
  rw [shr_eq_div]
  exact ⟨e, he, k1, k2, k3, hpl, fun hband => inCellPlane_eq _ _ _ hpl hband⟩

/-- **the cell of the centre is kept, every start depth, plane sense** -/
theorem elliptical_cone_coverage_centre_cell_kept_plane (cfg : Cfg) (depth : ℕ) (lon lat a b pa : ℝ) (hb : 0 < b)
    (hba : b ≤ a) (hA : |lat| + a < tl) (hmin : 1 / 2 ^ 1024 < sin b) (m : BMOC)
    (h : ellipticalConeCoverage (α := ℝ) cfg depth lon lat a b pa = some m)
    (ds root : ℕ) (hst : IsStartCell cfg lon lat a ds root) (hq : InCellEq ds root (lon, lat)) :
    ∃ e ∈ m.entries, InCellPlane (decode e depth).depth (decode e depth).hash (lon, lat) := by
  rcases Nat.lt_or_ge depth ds with hlt | hge
  · obtain ⟨e, he, k1, k2, _, k4, _⟩ := elliptical_cone_coverage_centre_cell_kept_small cfg depth lon lat a b pa hb hba hA hmin
      m h ds root hst hlt hq
    exact ⟨e, he, by rw [k1, k2]; exact k4⟩
  · obtain ⟨e, he, k⟩ := elliptical_cone_coverage_centre_cell_kept_equatorial cfg depth lon lat a b pa hb hba hA hmin m h ds
      root hst hge hq
    exact ⟨e, he, inCellEq_plane _ _ _ k⟩

end Hpx.EConeBmoc

#print axioms Hpx.EConeBmoc.ellInternal_split
#print axioms Hpx.EConeBmoc.elliptical_cone_coverage_circular_no_miss_equatorial
#print axioms Hpx.EConeBmoc.elliptical_cone_coverage_circular_no_miss_small
#print axioms Hpx.EConeBmoc.elliptical_cone_coverage_circular_full_inside_equatorial
#print axioms Hpx.EConeBmoc.elliptical_cone_coverage_centre_cell_kept_equatorial
#print axioms Hpx.EConeBmoc.elliptical_cone_coverage_centre_cell_kept_small
