/-
Point-in-polygon over the reals (C12), part 3: the counting argument for a convex polygon, abstractly.

Along the meridian of the point, parametrised by `τ = tan(latitude)`, the half-space of the edge `e` is `A e + τ · Z e > 0`
(`Z e` = `z` component of the inward normal, `A e` = its component along the direction of the meridian).  The edge meets
the meridian (`R e`) at `τ e = −A e / Z e`.  From the four facts
  F1 (a meeting point is in the closed polygon), F2 (two edges do not meet the meridian at the same point),
  F3 (a point of an edge's great circle that is in the closed polygon is on the edge) and F4 (no pole inside)
the number of meeting points strictly south of a point that is not on the boundary is odd iff the point is in all the
open half-spaces.
-/
import HpxVerif.Lemmas.PolyReal2

namespace Hpx.Sph
open Real

section abstractCount
variable {ε : Type}

theorem countP_le_one_of_pairwise (P : ε → Bool) (l : List ε) (h : l.Pairwise (fun a b => ¬ (P a = true ∧ P b = true))) :
    l.countP P ≤ 1 := by
  induction l with
  | nil => simp
  | cons a l ih =>
    have h' := List.pairwise_cons.mp h
    rw [List.countP_cons]
    by_cases ha : P a = true
    · have : l.countP P = 0 := by
        rw [List.countP_eq_zero]
        intro b hb hPb
        exact h'.1 b hb ⟨ha, hPb⟩
      simp [this, ha]
    · have := ih h'.2
      simp [ha]; exact this

theorem exists_max_on (l : List ε) (f : ε → ℝ) (P : ε → Prop) (h : ∃ x ∈ l, P x) :
    ∃ x ∈ l, P x ∧ ∀ y ∈ l, P y → f y ≤ f x := by
  induction l with
  | nil => obtain ⟨x, hx, _⟩ := h; simp at hx
  | cons a l ih =>
    by_cases hl : ∃ x ∈ l, P x
    · obtain ⟨m, hm, hPm, hmax⟩ := ih hl
      by_cases ha : P a ∧ f m < f a
      · refine ⟨a, by simp, ha.1, ?_⟩
        intro y hy hPy
        rcases List.mem_cons.mp hy with rfl | hy
        · exact le_refl _
        · exact le_trans (hmax y hy hPy) ha.2.le
      · refine ⟨m, by simp [hm], hPm, ?_⟩
        intro y hy hPy
        rcases List.mem_cons.mp hy with rfl | hy
        · by_contra hc
          exact ha ⟨hPy, not_le.mp hc⟩
        · exact hmax y hy hPy
    · obtain ⟨x, hx, hPx⟩ := h
      rcases List.mem_cons.mp hx with rfl | hx
      · refine ⟨x, by simp, hPx, ?_⟩
        intro y hy hPy
        rcases List.mem_cons.mp hy with rfl | hy
        · exact le_refl _
        · exact absurd ⟨y, hy, hPy⟩ hl
      · exact absurd ⟨x, hx, hPx⟩ hl

theorem exists_min_on (l : List ε) (f : ε → ℝ) (P : ε → Prop) (h : ∃ x ∈ l, P x) :
    ∃ x ∈ l, P x ∧ ∀ y ∈ l, P y → f x ≤ f y := by
  obtain ⟨x, hx, hP, hm⟩ := exists_max_on l (fun e => -f e) P h
  exact ⟨x, hx, hP, fun y hy hPy => by have := hm y hy hPy; linarith⟩

theorem lin_pos_iff_of_pos {A Z x : ℝ} (hZ : 0 < Z) : 0 < A + x * Z ↔ -A / Z < x := by
  rw [div_lt_iff₀ hZ]; constructor <;> intro h <;> linarith
theorem lin_nonneg_iff_of_pos {A Z x : ℝ} (hZ : 0 < Z) : 0 ≤ A + x * Z ↔ -A / Z ≤ x := by
  rw [div_le_iff₀ hZ]; constructor <;> intro h <;> linarith
theorem lin_pos_iff_of_neg {A Z x : ℝ} (hZ : Z < 0) : 0 < A + x * Z ↔ x < -A / Z := by
  rw [lt_div_iff_of_neg hZ]; constructor <;> intro h <;> linarith
theorem lin_nonneg_iff_of_neg {A Z x : ℝ} (hZ : Z < 0) : 0 ≤ A + x * Z ↔ x ≤ -A / Z := by
  rw [le_div_iff_of_neg hZ]; constructor <;> intro h <;> linarith

open Classical in
/-- the counting argument -/
theorem convex_count (A Z : ε → ℝ) (R : ε → Prop) (E : List ε)
    (F0 : ∀ e ∈ E, R e → Z e ≠ 0)
    (F1 : ∀ e ∈ E, R e → ∀ e' ∈ E, 0 ≤ A e' + (-A e / Z e) * Z e')
    (F2 : E.Pairwise (fun e e' => R e → R e' → 0 < A e' + (-A e / Z e) * Z e' ∧ 0 < A e + (-A e' / Z e') * Z e))
    (F3 : ∀ e ∈ E, Z e ≠ 0 → (∀ e' ∈ E, 0 ≤ A e' + (-A e / Z e) * Z e') → R e)
    (F4 : (∃ e ∈ E, 0 < Z e) ∧ (∃ e ∈ E, Z e < 0))
    (τ : ℝ) (hnb : (∀ e ∈ E, 0 ≤ A e + τ * Z e) → ∀ e ∈ E, 0 < A e + τ * Z e) :
    Odd (E.countP (fun e => decide (R e ∧ -A e / Z e < τ))) ↔ ∀ e ∈ E, 0 < A e + τ * Z e := by
  set t : ε → ℝ := fun e => -A e / Z e with ht
  -- split according to the sign of `Z`
  set Pp : ε → Bool := fun e => decide (R e ∧ t e < τ) && decide (0 < Z e) with hPp
  set Pm : ε → Bool := fun e => decide (R e ∧ t e < τ) && !decide (0 < Z e) with hPm
  have hsplit : E.countP (fun e => decide (R e ∧ t e < τ)) = E.countP Pp + E.countP Pm := by
    rw [List.countP_eq_length_filter, List.length_eq_countP_add_countP (fun e => decide (0 < Z e)),
      List.countP_filter, List.countP_filter]
    simp only [hPp, hPm, Bool.and_comm]
    congr 1
    apply List.countP_congr
    intro x _
    simp
  have hPp_iff : ∀ e, Pp e = true ↔ R e ∧ t e < τ ∧ 0 < Z e := by
    intro e; simp [hPp, and_assoc]
  have hPm_iff : ∀ e ∈ E, Pm e = true ↔ R e ∧ t e < τ ∧ Z e < 0 := by
    intro e he; simp only [hPm, Bool.and_eq_true, decide_eq_true_iff, Bool.not_eq_true', decide_eq_false_iff_not]
    constructor
    · rintro ⟨⟨h1, h2⟩, h3⟩
      exact ⟨h1, h2, lt_of_le_of_ne (not_lt.mp h3) (F0 e he h1)⟩
    · rintro ⟨h1, h2, h3⟩
      exact ⟨⟨h1, h2⟩, not_lt.mpr h3.le⟩
  -- at most one of each kind
  have hp1 : E.countP Pp ≤ 1 := by
    apply countP_le_one_of_pairwise
    refine F2.imp_of_mem ?_
    intro a b ha hb hab ⟨h1, h2⟩
    rw [hPp_iff] at h1 h2
    obtain ⟨g1, g2⟩ := hab h1.1 h2.1
    rw [lin_pos_iff_of_pos h2.2.2] at g1
    rw [lin_pos_iff_of_pos h1.2.2] at g2
    linarith
  have hm1 : E.countP Pm ≤ 1 := by
    apply countP_le_one_of_pairwise
    refine F2.imp_of_mem ?_
    intro a b ha hb hab ⟨h1, h2⟩
    rw [hPm_iff a ha] at h1
    rw [hPm_iff b hb] at h2
    obtain ⟨g1, g2⟩ := hab h1.1 h2.1
    rw [lin_pos_iff_of_neg h2.2.2] at g1
    rw [lin_pos_iff_of_neg h1.2.2] at g2
    linarith
  -- existence of the two crossings when the `Z > 0` side is below the `Z < 0` side
  have lower : (∀ e' ∈ E, Z e' = 0 → 0 ≤ A e') → (∀ e' ∈ E, ∀ e'' ∈ E, 0 < Z e' → Z e'' < 0 → t e' ≤ t e'') →
      ∃ e ∈ E, R e ∧ 0 < Z e ∧ ∀ e' ∈ E, 0 < Z e' → t e' ≤ t e := by
    intro h0 hsep
    obtain ⟨e0, he0, hZ0, hmax⟩ := exists_max_on E t (fun e => 0 < Z e) F4.1
    refine ⟨e0, he0, ?_, hZ0, hmax⟩
    apply F3 e0 he0 hZ0.ne'
    intro e' he'
    rcases lt_trichotomy (Z e') 0 with hz | hz | hz
    · rw [lin_nonneg_iff_of_neg hz]
      exact hsep e0 he0 e' he' hZ0 hz
    · rw [hz]; simpa using h0 e' he' hz
    · rw [lin_nonneg_iff_of_pos hz]
      exact hmax e' he' hz
  have upper : (∀ e' ∈ E, Z e' = 0 → 0 ≤ A e') → (∀ e' ∈ E, ∀ e'' ∈ E, 0 < Z e' → Z e'' < 0 → t e' ≤ t e'') →
      ∃ e ∈ E, R e ∧ Z e < 0 ∧ ∀ e' ∈ E, Z e' < 0 → t e ≤ t e' := by
    intro h0 hsep
    obtain ⟨e0, he0, hZ0, hmin⟩ := exists_min_on E t (fun e => Z e < 0) F4.2
    refine ⟨e0, he0, ?_, hZ0, hmin⟩
    apply F3 e0 he0 hZ0.ne
    intro e' he'
    rcases lt_trichotomy (Z e') 0 with hz | hz | hz
    · rw [lin_nonneg_iff_of_neg hz]
      exact hmin e' he' hz
    · rw [hz]; simpa using h0 e' he' hz
    · rw [lin_nonneg_iff_of_pos hz]
      exact hsep e' he' e0 he0 hz hZ0
  -- what a crossing edge says about the others
  have cross_info : ∀ e ∈ E, R e → (∀ e' ∈ E, Z e' = 0 → 0 ≤ A e') ∧ (∀ e' ∈ E, 0 < Z e' → t e' ≤ t e) ∧
      (∀ e' ∈ E, Z e' < 0 → t e ≤ t e') := by
    intro e he hR
    refine ⟨?_, ?_, ?_⟩
    · intro e' he' hz; have := F1 e he hR e' he'; rw [hz] at this; simpa using this
    · intro e' he' hz; have := F1 e he hR e' he'; rwa [lin_nonneg_iff_of_pos hz] at this
    · intro e' he' hz; have := F1 e he hR e' he'; rwa [lin_nonneg_iff_of_neg hz] at this
  rw [hsplit]
  constructor
  · -- odd ⇒ inside; by contraposition
    intro hodd
    by_contra hout
    have hout2 : ¬ ∀ e ∈ E, 0 ≤ A e + τ * Z e := fun h => hout (hnb h)
    push Not at hout2
    obtain ⟨j, hj, hjlt⟩ := hout2
    -- both kinds exist or none
    have hiff : (0 < E.countP Pp) ↔ (0 < E.countP Pm) := by
      rw [List.countP_pos_iff, List.countP_pos_iff]
      constructor
      · rintro ⟨e, he, hPe⟩
        rw [hPp_iff] at hPe
        obtain ⟨hR, hlt, hZ⟩ := hPe
        obtain ⟨c0, c1, c2⟩ := cross_info e he hR
        -- `j` is on the `Z < 0` side
        have hZj : Z j < 0 := by
          have h1 := F1 e he hR j hj
          by_contra hc
          have hc' : 0 ≤ Z j := not_lt.mp hc
          have : (τ - t e) * Z j ≥ 0 := mul_nonneg (by linarith) hc'
          nlinarith
        have hjτ : t j < τ := by
          have : ¬ 0 ≤ A j + τ * Z j := not_le.mpr hjlt
          rw [lin_nonneg_iff_of_neg hZj] at this
          exact not_le.mp this
        obtain ⟨e1, he1, hR1, hZ1, hmin1⟩ := upper c0
          (fun e' he' e'' he'' h1 h2 => le_trans (c1 e' he' h1) (c2 e'' he'' h2))
        refine ⟨e1, he1, ?_⟩
        rw [hPm_iff e1 he1]
        exact ⟨hR1, lt_of_le_of_lt (hmin1 j hj hZj) hjτ, hZ1⟩
      · rintro ⟨e, he, hPe⟩
        rw [hPm_iff e he] at hPe
        obtain ⟨hR, hlt, hZ⟩ := hPe
        obtain ⟨c0, c1, c2⟩ := cross_info e he hR
        obtain ⟨e0, he0, hR0, hZ0, _⟩ := lower c0
          (fun e' he' e'' he'' h1 h2 => le_trans (c1 e' he' h1) (c2 e'' he'' h2))
        refine ⟨e0, he0, ?_⟩
        rw [hPp_iff]
        exact ⟨hR0, lt_of_le_of_lt (c1 e0 he0 hZ0) hlt, hZ0⟩
    rw [Nat.odd_iff] at hodd
    omega
  · intro hin
    have h0 : ∀ e' ∈ E, Z e' = 0 → 0 ≤ A e' := by
      intro e' he' hz; have := hin e' he'; rw [hz] at this; simp at this; exact this.le
    have hsep : ∀ e' ∈ E, ∀ e'' ∈ E, 0 < Z e' → Z e'' < 0 → t e' ≤ t e'' := by
      intro e' he' e'' he'' h1 h2
      have g1 := hin e' he'; rw [lin_pos_iff_of_pos h1] at g1
      have g2 := hin e'' he''; rw [lin_pos_iff_of_neg h2] at g2
      exact (lt_trans g1 g2).le
    obtain ⟨e0, he0, hR0, hZ0, _⟩ := lower h0 hsep
    have hp : 0 < E.countP Pp := by
      rw [List.countP_pos_iff]
      refine ⟨e0, he0, ?_⟩
      rw [hPp_iff]
      have g1 := hin e0 he0; rw [lin_pos_iff_of_pos hZ0] at g1
      exact ⟨hR0, g1, hZ0⟩
    have hm : E.countP Pm = 0 := by
      rw [List.countP_eq_zero]
      intro e he hPe
      rw [hPm_iff e he] at hPe
      have g2 := hin e he; rw [lin_pos_iff_of_neg hPe.2.2] at g2
      linarith [hPe.2.1]
    rw [Nat.odd_iff]
    omega

end abstractCount

/-! ## the geometric instance -/

/-- the arc `u w` meets the meridian `l` at the point of direction `(cos l, sin l, τ)` (`τ` = tangent of the latitude) -/
def MeetsV (u w : Coo ℝ) (l τ : ℝ) : Prop :=
  ∃ s t : ℝ, 0 < s ∧ 0 < t ∧ s * u.x + t * w.x = cos l ∧ s * u.y + t * w.y = sin l ∧ s * u.z + t * w.z = τ

theorem arcMeets_iff_meetsV (u w : Coo ℝ) (l β : ℝ) (hβ1 : -(π / 2) < β) (hβ2 : β < π / 2) :
    ArcMeets u w l β ↔ MeetsV u w l (tan β) := by
  have hc : 0 < cos β := cos_pos_of_mem_Ioo ⟨hβ1, hβ2⟩
  constructor
  · rintro ⟨s, t, ρ, hs, ht, hρ, ex, ey, ez⟩
    refine ⟨s / (ρ * cos β), t / (ρ * cos β), by positivity, by positivity, ?_, ?_, ?_⟩
    · rw [div_mul_eq_mul_div, div_mul_eq_mul_div, ← add_div, ex]; field_simp
    · rw [div_mul_eq_mul_div, div_mul_eq_mul_div, ← add_div, ey]; field_simp
    · rw [div_mul_eq_mul_div, div_mul_eq_mul_div, ← add_div, ez, tan_eq_sin_div_cos]; field_simp
  · rintro ⟨s, t, hs, ht, ex, ey, ez⟩
    refine ⟨s, t, 1 / cos β, hs, ht, by positivity, ?_, ?_, ?_⟩
    · rw [ex]; field_simp
    · rw [ey]; field_simp
    · rw [ez, tan_eq_sin_div_cos]; field_simp

theorem crossesSouth_iff_meetsV (u w p : Coo ℝ) (hp : p.NonPole) :
    CrossesSouth u w p ↔ ∃ τ : ℝ, MeetsV u w p.lon τ ∧ τ < tan p.lat := by
  constructor
  · rintro ⟨β, hβ1, hβ2, hm, hlt⟩
    exact ⟨tan β, (arcMeets_iff_meetsV u w _ β hβ1 hβ2).mp hm, tan_lt_tan_of_lt_of_lt_pi_div_two hβ1 hp.2 hlt⟩
  · rintro ⟨τ, hm, hlt⟩
    refine ⟨arctan τ, neg_pi_div_two_lt_arctan τ, arctan_lt_pi_div_two τ, ?_, ?_⟩
    · rw [arcMeets_iff_meetsV u w _ _ (neg_pi_div_two_lt_arctan τ) (arctan_lt_pi_div_two τ), tan_arctan]; exact hm
    · have := arctan_strictMono hlt
      rwa [arctan_tan hp.1 hp.2] at this

/-- components of the inward normal `o · (u × w)` seen from the meridian `l` -/
noncomputable def edgeA (o l : ℝ) (e : Coo ℝ × Coo ℝ) : ℝ :=
  o * ((cross e.1 e.2).1 * cos l + (cross e.1 e.2).2.1 * sin l)
noncomputable def edgeZ (o : ℝ) (e : Coo ℝ × Coo ℝ) : ℝ := o * (cross e.1 e.2).2.2

theorem lin_of_meetsV {u w : Coo ℝ} {l τ : ℝ} (s t : ℝ) (ex : s * u.x + t * w.x = cos l) (ey : s * u.y + t * w.y = sin l)
    (ez : s * u.z + t * w.z = τ) (o : ℝ) (e' : Coo ℝ × Coo ℝ) :
    edgeA o l e' + τ * edgeZ o e' = s * (o * dot u (cross e'.1 e'.2)) + t * (o * dot w (cross e'.1 e'.2)) := by
  unfold edgeA edgeZ dot
  rw [← ex, ← ey, ← ez]; ring

theorem lin_self_of_meetsV {u w : Coo ℝ} {l τ : ℝ} (h : MeetsV u w l τ) (o : ℝ) :
    edgeA o l (u, w) + τ * edgeZ o (u, w) = 0 := by
  obtain ⟨s, t, _, _, ex, ey, ez⟩ := h
  rw [lin_of_meetsV s t ex ey ez]
  unfold dot cross; ring

theorem dot_eq_lin {p : Coo ℝ} (hp : p.Valid) (hpn : p.NonPole) (o : ℝ) (e : Coo ℝ × Coo ℝ) :
    o * dot p (cross e.1 e.2) = cos p.lat * (edgeA o p.lon e + tan p.lat * edgeZ o e) := by
  have hc := hpn.cos_pos
  unfold edgeA edgeZ dot
  rw [hp.hx, hp.hy, hp.hz, tan_eq_sin_div_cos]; field_simp

/-- a meridian whose direction is a non-negative multiple of the horizontal part of a vertex passes through that vertex -/
theorem lon_eq_of_dir {w : Coo ℝ} (hw : w.Valid) (hwn : w.NonPole) (l : ℝ) (hl0 : 0 ≤ l) (hl1 : l < 2 * π) (t : ℝ)
    (ht : 0 ≤ t) (ex : t * w.x = cos l) (ey : t * w.y = sin l) : l = w.lon := by
  by_contra hne
  have hc := hwn.cos_pos
  rw [hw.hx] at ex
  rw [hw.hy] at ey
  have hs : sin (l - w.lon) = 0 := by rw [sin_sub, ← ex, ← ey]; ring
  have hcos : cos (l - w.lon) = t * cos w.lat := by
    rw [cos_sub, ← ex, ← ey]
    have := sin_sq_add_cos_sq w.lon
    linear_combination (t * cos w.lat) * this
  have := sin_eq_zero_cos (x := l - w.lon) (by linarith [hw.lon1]) (by linarith [hw.lon0]) hs (sub_ne_zero.mpr hne)
  rw [hcos] at this
  have : 0 ≤ t * cos w.lat := by positivity
  linarith

open Classical in
/-- **the crossing count of a convex edge list.**  `o = ±1` is the orientation (`o · (u × w)` is the inward normal).
    * `C1` every vertex is in every closed half-space; `C2` two different edges have no common great circle through both
      end points of one of them (strict convexity); `C3` each end point of an edge is strictly inside the half-space of a
      neighbouring edge that contains the other end point;
    * `F4` neither pole is in the closed polygon;
    * `p` is not a pole, its meridian passes through no vertex, and `p` is not on the boundary of the polygon
      (`hnb`: if it is in all the closed half-spaces then it is in all the open ones). -/
theorem count_convex (E : List (Coo ℝ × Coo ℝ)) (o : ℝ) (ho : o = 1 ∨ o = -1)
    (hv : ∀ e ∈ E, (e.1.Valid ∧ e.1.NonPole) ∧ (e.2.Valid ∧ e.2.NonPole))
    (C1 : ∀ e ∈ E, ∀ e' ∈ E, 0 ≤ o * dot e.1 (cross e'.1 e'.2) ∧ 0 ≤ o * dot e.2 (cross e'.1 e'.2))
    (C2 : E.Pairwise (fun e e' =>
      (0 < o * dot e.1 (cross e'.1 e'.2) ∨ 0 < o * dot e.2 (cross e'.1 e'.2)) ∧
      (0 < o * dot e'.1 (cross e.1 e.2) ∨ 0 < o * dot e'.2 (cross e.1 e.2))))
    (C3 : ∀ e ∈ E, (∃ e' ∈ E, 0 < o * dot e.1 (cross e'.1 e'.2) ∧ dot e.2 (cross e'.1 e'.2) = 0) ∧
      (∃ e' ∈ E, 0 < o * dot e.2 (cross e'.1 e'.2) ∧ dot e.1 (cross e'.1 e'.2) = 0))
    (F4 : (∃ e ∈ E, 0 < o * (cross e.1 e.2).2.2) ∧ (∃ e ∈ E, o * (cross e.1 e.2).2.2 < 0))
    (p : Coo ℝ) (hp : p.Valid) (hpn : p.NonPole) (hgen : ∀ e ∈ E, p.lon ≠ e.1.lon ∧ p.lon ≠ e.2.lon)
    (hnb : (∀ e ∈ E, 0 ≤ o * dot p (cross e.1 e.2)) → ∀ e ∈ E, 0 < o * dot p (cross e.1 e.2)) :
    Odd (E.countP (fun e => decide (CrossesSouth e.1 e.2 p))) ↔ ∀ e ∈ E, 0 < o * dot p (cross e.1 e.2) := by
  have hcp := hpn.cos_pos
  have ho0 : o ≠ 0 := by rcases ho with h | h <;> rw [h] <;> norm_num
  set l := p.lon with hl
  -- the meeting parameter is `-A/Z`
  have tau_eq : ∀ e ∈ E, ∀ τ, MeetsV e.1 e.2 l τ → edgeZ o e ≠ 0 → τ = -edgeA o l e / edgeZ o e := by
    intro e _ τ hm hz
    have := lin_self_of_meetsV hm o
    field_simp
    linarith
  have F0 : ∀ e ∈ E, (∃ τ, MeetsV e.1 e.2 l τ) → edgeZ o e ≠ 0 := by
    rintro e he ⟨τ, hm⟩
    obtain ⟨⟨h1, h1n⟩, ⟨h2, h2n⟩⟩ := hv e he
    have hm' : ∃ β : ℝ, -(π / 2) < β ∧ β < π / 2 ∧ ArcMeets e.1 e.2 l β :=
      ⟨arctan τ, neg_pi_div_two_lt_arctan τ, arctan_lt_pi_div_two τ, by
        rw [arcMeets_iff_meetsV _ _ _ _ (neg_pi_div_two_lt_arctan τ) (arctan_lt_pi_div_two τ), tan_arctan]; exact hm⟩
    have := ((lonRange_iff_arcMeets h1 h2 h1n h2n l hp.lon0 hp.lon1 (hgen e he).1 (hgen e he).2).mpr hm').2
    unfold edgeZ
    rw [cross_z_eq h1 h2]
    exact mul_ne_zero ho0 (mul_ne_zero (mul_ne_zero h1n.cos_pos.ne' h2n.cos_pos.ne') this)
  have key := convex_count (edgeA o l) (edgeZ o) (fun e => ∃ τ, MeetsV e.1 e.2 l τ) E F0 ?_ ?_ ?_ F4 (tan p.lat) ?_
  · -- translate
    have e1 : E.countP (fun e => decide (CrossesSouth e.1 e.2 p)) =
        E.countP (fun e => decide ((∃ τ, MeetsV e.1 e.2 l τ) ∧ -edgeA o l e / edgeZ o e < tan p.lat)) := by
      apply List.countP_congr
      intro e he
      simp only [decide_eq_true_iff]
      rw [crossesSouth_iff_meetsV _ _ _ hpn]
      constructor
      · rintro ⟨τ, hm, hlt⟩
        refine ⟨⟨τ, hm⟩, ?_⟩
        rw [← tau_eq e he τ hm (F0 e he ⟨τ, hm⟩)]; exact hlt
      · rintro ⟨⟨τ, hm⟩, hlt⟩
        refine ⟨τ, hm, ?_⟩
        rw [tau_eq e he τ hm (F0 e he ⟨τ, hm⟩)]; exact hlt
    rw [e1, key]
    constructor
    · intro h e he
      rw [dot_eq_lin hp hpn]
      exact mul_pos hcp (h e he)
    · intro h e he
      have := h e he
      rw [dot_eq_lin hp hpn] at this
      exact (mul_pos_iff_of_pos_left hcp).mp this
  · -- F1
    rintro e he ⟨τ, hm⟩ e' he'
    rw [← tau_eq e he τ hm (F0 e he ⟨τ, hm⟩)]
    obtain ⟨s, t, hs, ht, ex, ey, ez⟩ := hm
    rw [lin_of_meetsV s t ex ey ez]
    have := C1 e he e' he'
    have h1 := mul_nonneg hs.le this.1
    have h2 := mul_nonneg ht.le this.2
    linarith
  · -- F2
    refine C2.imp_of_mem ?_
    rintro e e' he he' ⟨c1, c2⟩ ⟨τ, hm⟩ ⟨τ', hm'⟩
    rw [← tau_eq e he τ hm (F0 e he ⟨τ, hm⟩), ← tau_eq e' he' τ' hm' (F0 e' he' ⟨τ', hm'⟩)]
    obtain ⟨s, t, hs, ht, ex, ey, ez⟩ := hm
    obtain ⟨s', t', hs', ht', ex', ey', ez'⟩ := hm'
    rw [lin_of_meetsV s t ex ey ez, lin_of_meetsV s' t' ex' ey' ez']
    have a1 := C1 e he e' he'
    have a2 := C1 e' he' e he
    constructor
    · rcases c1 with c | c
      · have := mul_pos hs c; have := mul_nonneg ht.le a1.2; linarith
      · have := mul_pos ht c; have := mul_nonneg hs.le a1.1; linarith
    · rcases c2 with c | c
      · have := mul_pos hs' c; have := mul_nonneg ht'.le a2.2; linarith
      · have := mul_pos ht' c; have := mul_nonneg hs'.le a2.1; linarith
  · -- F3
    intro e he hz hall
    obtain ⟨⟨h1, h1n⟩, ⟨h2, h2n⟩⟩ := hv e he
    set u := e.1 with hu
    set w := e.2 with hw
    set Zr := (cross u w).2.2 with hZr
    have hZr0 : Zr ≠ 0 := by
      intro h0; apply hz; unfold edgeZ; rw [← hZr, h0]; ring
    set τ := -edgeA o l e / edgeZ o e with hτ
    set s := -(w.x * sin l - w.y * cos l) / Zr with hs
    set t := (u.x * sin l - u.y * cos l) / Zr with ht
    have hZrv : Zr = u.x * w.y - u.y * w.x := rfl
    have ex : s * u.x + t * w.x = cos l := by
      rw [hs, ht]; field_simp; rw [hZrv]; ring
    have ey : s * u.y + t * w.y = sin l := by
      rw [hs, ht]; field_simp; rw [hZrv]; ring
    have ez : s * u.z + t * w.z = τ := by
      have h0 : edgeA o l e + (s * u.z + t * w.z) * edgeZ o e = 0 := by
        rw [lin_of_meetsV s t ex ey rfl]
        unfold dot cross; ring
      rw [hτ]; field_simp; linarith
    obtain ⟨⟨ep, hep, hep1, hep2⟩, ⟨em, hem, hem1, hem2⟩⟩ := C3 e he
    have hs0 : 0 ≤ s := by
      have := hall ep hep
      rw [lin_of_meetsV s t ex ey ez, hep2] at this
      have h3 : 0 ≤ s * (o * dot u (cross ep.1 ep.2)) := by linarith
      by_contra hc
      have : s * (o * dot u (cross ep.1 ep.2)) < 0 := mul_neg_of_neg_of_pos (not_le.mp hc) hep1
      linarith
    have ht0 : 0 ≤ t := by
      have := hall em hem
      rw [lin_of_meetsV s t ex ey ez, hem2] at this
      have h3 : 0 ≤ t * (o * dot w (cross em.1 em.2)) := by linarith
      by_contra hc
      have : t * (o * dot w (cross em.1 em.2)) < 0 := mul_neg_of_neg_of_pos (not_le.mp hc) hem1
      linarith
    have hs1 : s ≠ 0 := by
      intro h0
      rw [h0] at ex ey
      exact (hgen e he).2 (lon_eq_of_dir h2 h2n l hp.lon0 hp.lon1 t ht0 (by linarith) (by linarith))
    have ht1 : t ≠ 0 := by
      intro h0
      rw [h0] at ex ey
      exact (hgen e he).1 (lon_eq_of_dir h1 h1n l hp.lon0 hp.lon1 s hs0 (by linarith) (by linarith))
    exact ⟨τ, s, t, lt_of_le_of_ne hs0 (Ne.symm hs1), lt_of_le_of_ne ht0 (Ne.symm ht1), ex, ey, ez⟩
  · -- `p` is not on the boundary
    intro hall e he
    have h1 : ∀ e ∈ E, 0 ≤ o * dot p (cross e.1 e.2) := by
      intro e he
      rw [dot_eq_lin hp hpn]
      exact mul_nonneg hcp.le (hall e he)
    have := hnb h1 e he
    rw [dot_eq_lin hp hpn] at this
    exact (mul_pos_iff_of_pos_left hcp).mp this

end Hpx.Sph
