import HpxVerif.Lemmas.ConeBmoc2

/-!
# C05 / C06 on the BMOC RETURNED by `cone_coverage_approx(_custom)` (part 3: small cones, `to_lower_depth`, examples)

`InCellEq` only speaks of STRICTLY equatorial cells.  An ancestor of a strictly equatorial cell can be centred ON the
transition latitude (its south child is strictly equatorial).  So when the crate reports the ANCESTOR of a tested cell
(small cone `depth < ds`; `to_lower_depth` of `cone_coverage_approx_custom`) containment is stated with
`InCellPlane d h q`: "`q = (x'·π/4 + 2πm, arcsin(2y'/3))` for a point `(x', y')`, `|y'| ≤ 1`, of the closed diamond of the
cell `(d, h)` in the projection plane" — the definition of `InCellEq` without the requirement that the centre of the cell
is strictly inside the band (`inCellPlane_eq`: with that requirement it IS `InCellEq`).  What is missing to say `InCellEq`
in those branches is precisely a notion of position for the cells that straddle the transition latitude.

* `InCellPlane`, `inCellEq_plane`, `inCellPlane_ancestor`, `inCellPlane_eq`;
* **`cone_coverage_approx_no_miss_small`**: T1 in the small-cone branch `depth < ds`;
* **`cone_coverage_approx_no_miss_plane`**: T1 for every start depth, conclusion `InCellPlane`;
* **`cone_coverage_approx_custom_no_miss_equatorial`**, **`cone_coverage_approx_custom_full_inside_equatorial`**,
  `cone_coverage_approx_custom_full_only_if` (T3);
* examples on the cone `lon = 1`, `lat = 0.2`, `r = 0.05`, depth 6.
-/

namespace Hpx.ConeBmoc
open Hpx Hpx.Hash Hpx.C2V Hpx.C2VReal Hpx.Proj Hpx.Cover Hpx.CellReal Hpx.EnvelopeReal Hpx.TopoLift Hpx.CellExtent
open Hpx.Bmoc Hpx.Tightness Hpx.EConeEq Real

/-! ## positions of a cell through the projection plane, without condition on the centre of the cell -/

/-- `q` is the image `(x'·π/4 + 2πm, arcsin(2y'/3))` of a point `(x', y')` of the closed equatorial band (`|y'| ≤ 1`) that
    lies in the closed diamond of the cell `(d, h)` of the NESTED scheme (`d ≤ 29`) -/
def InCellPlane (d h : ℕ) (q : ℝ × ℝ) : Prop :=
  d ≤ 29 ∧ h < 12 * 4 ^ d ∧ ∃ (x' y' : ℝ) (m : ℤ), |y'| ≤ 1 ∧ InDiamond (pcx d h) (pcy d h) (1 / 2 ^ d) x' y' ∧
    q = (x' * (π / 4) + 2 * π * m, latOf y')

theorem inCellEq_plane (d h : ℕ) (q : ℝ × ℝ) (hq : InCellEq d h q) : InCellPlane d h q := by
  obtain ⟨hd, hh, hband, x', y', m, hin, rfl⟩ := hq
  refine ⟨hd, hh, x', y', m, ?_, hin, rfl⟩
  have h1 := cellCy_band d _ _ _ hband
  unfold InDiamond at hin
  have h2 := abs_nonneg (x' - cellCx d (partsOf d h).d0h (partsOf d h).i (partsOf d h).j)
  have h3 := abs_sub_abs_le_abs_sub y' (cellCy d (partsOf d h).d0h (partsOf d h).i (partsOf d h).j)
  linarith

/-- with a centre strictly inside the band this is `InCellEq` -/
theorem inCellPlane_eq (d h : ℕ) (q : ℝ × ℝ) (hq : InCellPlane d h q) (hband : |pcy d h| < 1) : InCellEq d h q := by
  obtain ⟨hd, hh, x', y', m, _, hin, rfl⟩ := hq
  exact ⟨hd, hh, hband, x', y', m, hin, rfl⟩

/-- a position of a cell is a position of every ancestor -/
theorem inCellPlane_ancestor (d n x : ℕ) (q : ℝ × ℝ) (hq : InCellPlane (d + n) x q) : InCellPlane d (x / 4 ^ n) q := by
  obtain ⟨hd29, hh, x', y', m, hy, hin, rfl⟩ := hq
  refine ⟨by omega, anc_lt' d n x hh, x', y', m, hy, ?_, rfl⟩
  have h1 := anc_dist d n x (by omega)
  unfold InDiamond at hin ⊢
  have hx := abs_sub_le x' (pcx (d + n) x) (pcx d (x / 4 ^ n))
  have hy := abs_sub_le y' (pcy (d + n) x) (pcy d (x / 4 ^ n))
  linarith

theorem inCellPlane_ancestor' (D d x : ℕ) (hd : d ≤ D) (q : ℝ × ℝ) (hq : InCellPlane D x q) :
    InCellPlane d (x / 4 ^ (D - d)) q := by
  have e : D = d + (D - d) := by omega
  rw [e] at hq
  exact inCellPlane_ancestor d (D - d) x q hq

/-- a good cell that covers the cell `x` of depth `D` contains (plane sense) every position of `x` -/
theorem covers_plane (D : ℕ) (c : Cell) (hcd : c.depth ≤ D) (x : ℕ) (hcov : x / 4 ^ (D - c.depth) = c.hash) (q : ℝ × ℝ)
    (hq : InCellPlane D x q) : InCellPlane c.depth c.hash q := by
  have := inCellPlane_ancestor' D c.depth x hcd q hq
  rw [hcov] at this
  exact this

/-! ## the cell list: nothing missed, every start depth, in terms of cell numbers -/

/-- **the cell of `q` at the depth `D` of the list is covered by a cell of the list**: for every start cell (any start
    depth) and every position `q` of the cone in it there are a cell `c` of the list and a cell number `x` at depth `D`
    under `c` such that `q` is a position of `x` — `InCellEq D x q` when `ds ≤ D`; when `D < ds` (small cone), `x` is the
    ancestor at `D` of the start cell -/
theorem coneInternal_no_miss_number (cfg : Cfg) (D : ℕ) (hd : D ≤ 29) (lon lat r : ℝ) (hr : 0 ≤ r)
    (hA : |lat| + r < tl) (cells : List Cell) (h : coneInternal (α := ℝ) cfg D lon lat r = some cells)
    (ds root : ℕ) (hst : IsStartCell cfg lon lat r ds root) (q : ℝ × ℝ)
    (hq : InCellEq ds root q) (hin : adist (lon, lat) q ≤ r) :
    ∃ c ∈ cells, ∃ x, x / 4 ^ (D - c.depth) = c.hash ∧ InCellPlane D x q ∧ (ds ≤ D → InCellEq D x q) ∧
      (D < ds → x = root / 4 ^ (ds - D) ∧ c = ⟨D, x, false⟩) := by
  obtain ⟨hw, hrange⟩ := CoverAll.coneInternal_wf cfg D lon lat r cells h
  rcases Nat.lt_or_ge D ds with hlt | hge
  · have hc := coneInternal_no_miss_small cfg D lon lat r hr hA cells h ds root hst hlt q hq hin
    refine ⟨_, hc, root / 4 ^ (ds - D), by simp, ?_, fun h' => by omega, fun _ => ⟨rfl, rfl⟩⟩
    exact inCellPlane_ancestor' ds D root (by omega) q (inCellEq_plane ds root q hq)
  · obtain ⟨c, hc, hcq⟩ := coneInternal_no_miss cfg D hd lon lat r hr hA cells h ds root hst hge q hq hin
    obtain ⟨x, hx, hxq, _⟩ := inCellEq_descend' D c.depth c.hash q (hw.depth_le c hc) hd hcq
    exact ⟨c, hc, x, hx, inCellEq_plane D x q hxq, fun _ => hxq, fun h' => by omega⟩

/-! ## T1, small cone and every start depth -/

/-- **T1, small-cone branch `depth < ds = best_starting_depth(r)`**: the reported cells are the ancestors at `depth` of the
    tested cells of depth `ds`.  For every start cell `root` (strictly equatorial) that contains a position `q` of the cone,
    the BMOC has the entry `(depth, root >> 2(ds − depth))`, flagged partial, and `q` is a position of that cell in the
    sense of `InCellPlane` — and of `InCellEq` as soon as that ancestor is strictly equatorial. -/
theorem cone_coverage_approx_no_miss_small (cfg : Cfg) (depth : ℕ) (lon lat r : ℝ) (hr : 0 ≤ r)
    (hA : |lat| + r < tl) (b : BMOC) (h : coneCoverageApprox (α := ℝ) cfg depth lon lat r = some b)
    (ds root : ℕ) (hst : IsStartCell cfg lon lat r ds root) (hds : depth < ds) (q : ℝ × ℝ)
    (hq : InCellEq ds root q) (hin : adist (lon, lat) q ≤ r) :
    ∃ e ∈ b.entries, (decode e depth).depth = depth ∧ (decode e depth).hash = root >>> ((ds - depth) <<< 1) ∧
      (decode e depth).full = false ∧ InCellPlane depth (root >>> ((ds - depth) <<< 1)) q ∧
      (|pcy depth (root >>> ((ds - depth) <<< 1))| < 1 → InCellEq depth (root >>> ((ds - depth) <<< 1)) q) := by
  obtain ⟨hd, cells, hcells, rfl⟩ := coneCoverageApprox_unfold cfg depth lon lat r b h
  obtain ⟨hw, hrange⟩ := CoverAll.coneInternal_wf cfg depth lon lat r cells hcells
  obtain ⟨g1, g2⟩ := packed_good lon lat r depth hd cells hw hrange (coneInternal_good cfg depth hd lon lat r hA cells hcells)
  have hc := coneInternal_no_miss_small cfg depth lon lat r hr hA cells hcells ds root hst hds q hq hin
  obtain ⟨e, he, k1, k2, k3⟩ := g2 _ hc (root / 4 ^ (ds - depth)) (by simp)
  have hdep := (g1 e he).2 k3
  rw [hdep, Nat.sub_self, Nat.pow_zero, Nat.div_one] at k2
  have hpl := inCellPlane_ancestor' ds depth root (by omega) q (inCellEq_plane ds root q hq)
  rw [shr_eq_div]
  exact ⟨e, he, hdep, k2.symm, k3, hpl, fun hband => inCellPlane_eq _ _ q hpl hband⟩

/-- **T1 for every start depth, conclusion in the plane sense**: some entry of the BMOC contains `q` -/
theorem cone_coverage_approx_no_miss_plane (cfg : Cfg) (depth : ℕ) (lon lat r : ℝ) (hr : 0 ≤ r)
    (hA : |lat| + r < tl) (b : BMOC) (h : coneCoverageApprox (α := ℝ) cfg depth lon lat r = some b)
    (ds root : ℕ) (hst : IsStartCell cfg lon lat r ds root) (q : ℝ × ℝ)
    (hq : InCellEq ds root q) (hin : adist (lon, lat) q ≤ r) :
    ∃ e ∈ b.entries, InCellPlane (decode e depth).depth (decode e depth).hash q := by
  rcases Nat.lt_or_ge depth ds with hlt | hge
  · obtain ⟨e, he, k1, k2, _, k4, _⟩ := cone_coverage_approx_no_miss_small cfg depth lon lat r hr hA b h ds root hst hlt q hq hin
    exact ⟨e, he, by rw [k1, k2]; exact k4⟩
  · obtain ⟨e, he, k⟩ := cone_coverage_approx_no_miss_equatorial cfg depth lon lat r hr hA b h ds root hst hge q hq hin
    exact ⟨e, he, inCellEq_plane _ _ q k⟩

/-- **T1 as a statement on the three-valued state**: the cell number `x` of `q` at the requested depth is not absent
    from the returned BMOC -/
theorem cone_coverage_approx_state_not_absent (cfg : Cfg) (depth : ℕ) (lon lat r : ℝ) (hr : 0 ≤ r)
    (hA : |lat| + r < tl) (b : BMOC) (h : coneCoverageApprox (α := ℝ) cfg depth lon lat r = some b)
    (ds root : ℕ) (hst : IsStartCell cfg lon lat r ds root) (q : ℝ × ℝ)
    (hq : InCellEq ds root q) (hin : adist (lon, lat) q ≤ r) :
    ∃ x, InCellPlane depth x q ∧ (ds ≤ depth → InCellEq depth x q) ∧ stOf depth b.cells x ≠ .abs := by
  obtain ⟨hd, cells, hcells, rfl⟩ := coneCoverageApprox_unfold cfg depth lon lat r b h
  obtain ⟨hw, hrange⟩ := CoverAll.coneInternal_wf cfg depth lon lat r cells hcells
  obtain ⟨_, _, _, g4⟩ := packed_bmoc_wf depth hd cells hw hrange
  obtain ⟨c, hc, x, hx, hpl, heq, _⟩ := coneInternal_no_miss_number cfg depth hd lon lat r hr hA cells hcells ds root hst q hq hin
  refine ⟨x, hpl, heq, ?_⟩
  obtain ⟨h1, h2⟩ := (covers_iff_div depth c x).mpr hx
  show stOf depth (cellsOf depth (pack depth (cells.map (encode depth)))) x ≠ .abs
  rw [g4 x, Lower.stOf_of_mem hw hc h1 h2]
  exact Lower.ofFlag_ne_abs _

/-! ## T3: `cone_coverage_approx_custom` -/

/-- what `cone_coverage_approx_custom` returns for `delta_depth ≠ 0`: the packed list of the descent at
    `deep = depth + delta_depth`, degraded by `to_lower_depth` -/
theorem coneCoverageApproxCustom_unfold (cfg : Cfg) (depth deltaDepth : ℕ) (hdd : deltaDepth ≠ 0) (lon lat r : ℝ)
    (b : BMOC) (h : coneCoverageApproxCustom (α := ℝ) cfg depth deltaDepth lon lat r = some b) :
    depth + deltaDepth ≤ 29 ∧ ∃ cells, coneInternal (α := ℝ) cfg (depth + deltaDepth) lon lat r = some cells ∧
      b = { dmax := depth, entries := (toLowerLoop (depth + deltaDepth) depth
        (pack (depth + deltaDepth) (cells.map (encode (depth + deltaDepth)))) none) } := by
  unfold coneCoverageApproxCustom at h
  split at h
  · simp at h
  · split at h
    · rename_i h0
      exact absurd (by simpa using h0) hdd
    · simp only [] at h
      split at h
      · simp at h
      · rename_i hdeep
        split at h
        · simp at h
        · rename_i cells hcells
          simp only [Option.map_eq_some_iff] at h
          obtain ⟨e, he, rfl⟩ := h
          refine ⟨by omega, cells, hcells, ?_⟩
          unfold toLowerDepth at he
          split at he
          · simp at he
          · cases he; rfl

theorem div_div_pow (x a b : ℕ) : x / 4 ^ a / 4 ^ b = x / 4 ^ (a + b) := by
  rw [Nat.div_div_eq_div_mul, ← Nat.pow_add]

theorem div_bounds (x P : ℕ) (hP : 0 < P) : x / P * P ≤ x ∧ x < (x / P + 1) * P := by
  refine ⟨Nat.div_mul_le_self x P, ?_⟩
  have := Nat.lt_mul_div_succ x hP
  rw [Nat.mul_comm] at this
  exact this

/-- **T3, no-miss for `cone_coverage_approx_custom`, `delta_depth ≠ 0`** (ℝ, both profiles).  The descent is run at
    `deep = depth + delta_depth ≤ 29`, compacted, then degraded to `depth`.  For every start cell `root` (of the descent at
    `deep`; any start depth) that is strictly equatorial and every position `q` of the cone in it, some ENTRY of the returned
    BMOC contains `q` (plane sense; `inCellPlane_eq`: in the sense of `InCellEq` when the entry is strictly equatorial):
    the ancestor at `depth` of a reported deeper cell is kept by `to_lower_depth`. -/
theorem cone_coverage_approx_custom_no_miss_equatorial (cfg : Cfg) (depth deltaDepth : ℕ) (hdd : deltaDepth ≠ 0)
    (lon lat r : ℝ) (hr : 0 ≤ r) (hA : |lat| + r < tl) (b : BMOC)
    (h : coneCoverageApproxCustom (α := ℝ) cfg depth deltaDepth lon lat r = some b)
    (ds root : ℕ) (hst : IsStartCell cfg lon lat r ds root) (q : ℝ × ℝ)
    (hq : InCellEq ds root q) (hin : adist (lon, lat) q ≤ r) :
    ∃ e ∈ b.entries, InCellPlane (decode e depth).depth (decode e depth).hash q ∧
      ∃ x, InCellPlane (depth + deltaDepth) x q ∧ (ds ≤ depth + deltaDepth → InCellEq (depth + deltaDepth) x q) ∧
        x / 4 ^ (depth + deltaDepth - (decode e depth).depth) = (decode e depth).hash := by
  obtain ⟨hdeep, cells, hcells, rfl⟩ := coneCoverageApproxCustom_unfold cfg depth deltaDepth hdd lon lat r b h
  set deep := depth + deltaDepth with hdeep_def
  obtain ⟨hw, hrange⟩ := CoverAll.coneInternal_wf cfg deep lon lat r cells hcells
  obtain ⟨v1, v2, _, v4⟩ := packed_bmoc_wf deep hdeep cells hw hrange
  obtain ⟨w1, w2⟩ := Lower.toLower_wf deep depth hdeep (by omega) _ v1 v2
  have s3 := Lower.toLower_sem deep depth hdeep (by omega) _ v1 v2
  obtain ⟨c, hc, x, hx, hpl, heq, _⟩ := coneInternal_no_miss_number cfg deep hdeep lon lat r hr hA cells hcells ds root hst q hq hin
  obtain ⟨h1, h2⟩ := (covers_iff_div deep c x).mpr hx
  have hst1 : stOf deep (cellsOf deep (pack deep (cells.map (encode deep)))) x ≠ .abs := by
    rw [v4 x, Lower.stOf_of_mem hw hc h1 h2]
    exact Lower.ofFlag_ne_abs _
  obtain ⟨b1, b2⟩ := div_bounds x (4 ^ (deep - depth)) (Nat.pow_pos (by decide))
  have hst2 := (s3 (x / 4 ^ (deep - depth))).mpr ⟨x, b1, b2, hst1⟩
  obtain ⟨c'', hc'', k1, k2⟩ := stOf_ne_abs_covered hst2
  obtain ⟨e, he, rfl⟩ := List.mem_map.1 hc''
  have hcd := w1.depth_le _ hc''
  have hcov := (covers_iff_div depth _ _).mp ⟨k1, k2⟩
  rw [div_div_pow, show deep - depth + (depth - (decode e depth).depth) = deep - (decode e depth).depth by omega] at hcov
  refine ⟨e, he, ?_, x, hpl, heq, hcov⟩
  exact covers_plane deep _ (by omega) x hcov q hpl

/-- **T3, full flags of `cone_coverage_approx_custom`, `delta_depth ≠ 0`**: every entry of the returned BMOC flagged FULL
    has every position (`InCellEq`) strictly within `r` of the cone centre -/
theorem cone_coverage_approx_custom_full_inside_equatorial (cfg : Cfg) (depth deltaDepth : ℕ) (hdd : deltaDepth ≠ 0)
    (lon lat r : ℝ) (hA : |lat| + r < tl) (b : BMOC)
    (h : coneCoverageApproxCustom (α := ℝ) cfg depth deltaDepth lon lat r = some b)
    (e : ℕ) (he : e ∈ b.entries) (hf : (decode e depth).full = true) (q : ℝ × ℝ)
    (hq : InCellEq (decode e depth).depth (decode e depth).hash q) : adist (lon, lat) q < r := by
  obtain ⟨hdeep, cells, hcells, rfl⟩ := coneCoverageApproxCustom_unfold cfg depth deltaDepth hdd lon lat r b h
  set deep := depth + deltaDepth with hdeep_def
  obtain ⟨hw, hrange⟩ := CoverAll.coneInternal_wf cfg deep lon lat r cells hcells
  obtain ⟨v1, v2, _, v4⟩ := packed_bmoc_wf deep hdeep cells hw hrange
  obtain ⟨g1, _⟩ := packed_good lon lat r deep hdeep cells hw hrange (coneInternal_good cfg deep hdeep lon lat r hA cells hcells)
  obtain ⟨w1, w2⟩ := Lower.toLower_wf deep depth hdeep (by omega) _ v1 v2
  have s5 := Lower.toLower_full_only_if deep depth hdeep (by omega) _ v1 v2
  have hc'' : decode e depth ∈ cellsOf depth (toLowerLoop deep depth (pack deep (cells.map (encode deep))) none) :=
    List.mem_map.mpr ⟨e, he, rfl⟩
  have hcd := w1.depth_le _ hc''
  obtain ⟨x, hx, hxq, _⟩ := inCellEq_descend' deep _ _ q (by omega) hdeep hq
  have hcov : x / 4 ^ (deep - depth) / 4 ^ (depth - (decode e depth).depth) = (decode e depth).hash := by
    rw [div_div_pow, show deep - depth + (depth - (decode e depth).depth) = deep - (decode e depth).depth by omega]
    exact hx
  obtain ⟨k1, k2⟩ := (covers_iff_div depth _ _).mpr hcov
  have hst := Lower.stOf_of_mem w1 hc'' k1 k2
  rw [hf] at hst
  obtain ⟨b1, b2⟩ := div_bounds x (4 ^ (deep - depth)) (Nat.pow_pos (by decide))
  have hfull := s5 _ hst x b1 b2
  obtain ⟨c1, hc1, m1, m2⟩ := stOf_ne_abs_covered (D := deep) (x := x)
    (l := cellsOf deep (pack deep (cells.map (encode deep)))) (by rw [hfull]; simp)
  have hst1 := Lower.stOf_of_mem v2 hc1 m1 m2
  rw [hfull] at hst1
  have hf1 : c1.full = true := by
    revert hst1
    cases c1.full <;> simp [Tri.ofFlag]
  obtain ⟨e1, he1, rfl⟩ := List.mem_map.1 hc1
  have hg := g1 e1 he1
  have hin := goodCell_contains lon lat r deep hdeep _ hg (v2.depth_le _ hc1) x ((covers_iff_div deep _ x).mp ⟨m1, m2⟩) q hxq
  exact ((hg.1 hf1).2) q hin

/-- **T3, "full only if all the deepest cells under it were full"**: a FULL entry of the BMOC returned by
    `cone_coverage_approx_custom` (`delta_depth ≠ 0`) covers only cells of depth `deep = depth + delta_depth` that are covered
    by a FULL cell of the list of the descent at `deep` -/
theorem cone_coverage_approx_custom_full_only_if (cfg : Cfg) (depth deltaDepth : ℕ) (hdd : deltaDepth ≠ 0)
    (lon lat r : ℝ) (b : BMOC)
    (h : coneCoverageApproxCustom (α := ℝ) cfg depth deltaDepth lon lat r = some b)
    (e : ℕ) (he : e ∈ b.entries) (hf : (decode e depth).full = true) (x : ℕ)
    (hx : x / 4 ^ (depth + deltaDepth - (decode e depth).depth) = (decode e depth).hash) :
    ∃ cells, coneInternal (α := ℝ) cfg (depth + deltaDepth) lon lat r = some cells ∧
      ∃ c ∈ cells, c.full = true ∧ x / 4 ^ (depth + deltaDepth - c.depth) = c.hash := by
  obtain ⟨hdeep, cells, hcells, rfl⟩ := coneCoverageApproxCustom_unfold cfg depth deltaDepth hdd lon lat r b h
  refine ⟨cells, hcells, ?_⟩
  set deep := depth + deltaDepth with hdeep_def
  obtain ⟨hw, hrange⟩ := CoverAll.coneInternal_wf cfg deep lon lat r cells hcells
  obtain ⟨v1, v2, _, v4⟩ := packed_bmoc_wf deep hdeep cells hw hrange
  obtain ⟨w1, w2⟩ := Lower.toLower_wf deep depth hdeep (by omega) _ v1 v2
  have s5 := Lower.toLower_full_only_if deep depth hdeep (by omega) _ v1 v2
  have hc'' : decode e depth ∈ cellsOf depth (toLowerLoop deep depth (pack deep (cells.map (encode deep))) none) :=
    List.mem_map.mpr ⟨e, he, rfl⟩
  have hcd := w1.depth_le _ hc''
  have hcov : x / 4 ^ (deep - depth) / 4 ^ (depth - (decode e depth).depth) = (decode e depth).hash := by
    rw [div_div_pow, show deep - depth + (depth - (decode e depth).depth) = deep - (decode e depth).depth by omega]
    exact hx
  obtain ⟨k1, k2⟩ := (covers_iff_div depth _ _).mpr hcov
  have hst := Lower.stOf_of_mem w1 hc'' k1 k2
  rw [hf] at hst
  obtain ⟨b1, b2⟩ := div_bounds x (4 ^ (deep - depth)) (Nat.pow_pos (by decide))
  have hfull := s5 _ hst x b1 b2
  rw [v4 x] at hfull
  obtain ⟨c1, hc1, m1, m2⟩ := stOf_ne_abs_covered (D := deep) (x := x) (l := cells) (by rw [hfull]; simp)
  have hst1 := Lower.stOf_of_mem hw hc1 m1 m2
  rw [hfull] at hst1
  refine ⟨c1, hc1, ?_, (covers_iff_div deep _ x).mp ⟨m1, m2⟩⟩
  revert hst1
  cases c1.full <;> simp [Tri.ofFlag]


/-! ## the entries of the degraded BMOC are good cells -/

/-- a cell of the degraded list is a cell of the input of depth `≤ nd`, or a partial cell of depth `nd` -/
theorem lowerCells_mem (nd : ℕ) : ∀ (cells : List Cell) (prev : Option ℕ), ∀ c ∈ Lower.lowerCells nd cells prev,
    (c ∈ cells ∧ c.depth ≤ nd) ∨ (c.depth = nd ∧ c.full = false) := by
  intro cells
  induction cells with
  | nil =>
    intro prev c hc
    cases prev with
    | none => simp [Lower.lowerCells] at hc
    | some p =>
      simp only [Lower.lowerCells, List.mem_singleton] at hc
      subst hc
      exact Or.inr ⟨rfl, rfl⟩
  | cons c0 rest ih =>
    intro prev c hc
    have lift : ∀ prev', c ∈ Lower.lowerCells nd rest prev' →
        (c ∈ c0 :: rest ∧ c.depth ≤ nd) ∨ (c.depth = nd ∧ c.full = false) := by
      intro prev' h'
      rcases ih prev' c h' with ⟨h1, h2⟩ | h1
      · exact Or.inl ⟨List.mem_cons_of_mem _ h1, h2⟩
      · exact Or.inr h1
    unfold Lower.lowerCells at hc
    split at hc
    · rename_i hle
      rcases List.mem_append.mp hc with h1 | h1
      · cases prev with
        | none => simp at h1
        | some p =>
          simp only [List.mem_singleton] at h1
          subst h1
          exact Or.inr ⟨rfl, rfl⟩
      · rcases List.mem_cons.mp h1 with rfl | h1
        · exact Or.inl ⟨by simp, hle⟩
        · exact lift _ h1
    · cases prev with
      | none => exact lift _ hc
      | some p =>
        simp only at hc
        split at hc
        · rcases List.mem_cons.mp hc with rfl | h1
          · exact Or.inr ⟨rfl, rfl⟩
          · exact lift _ h1
        · exact lift _ hc

/-- **every entry of the BMOC returned by `cone_coverage_approx_custom` (`delta_depth ≠ 0`) is a good cell**: a FULL entry
    is a full entry of the compacted BMOC of depth `deep` (not centred on the transition latitude, every position strictly
    inside the cone); the other entries are partial cells at `depth` -/
theorem cone_coverage_approx_custom_good (cfg : Cfg) (depth deltaDepth : ℕ) (hdd : deltaDepth ≠ 0)
    (lon lat r : ℝ) (hA : |lat| + r < tl) (b : BMOC)
    (h : coneCoverageApproxCustom (α := ℝ) cfg depth deltaDepth lon lat r = some b)
    (e : ℕ) (he : e ∈ b.entries) : GoodCell lon lat r depth (decode e depth) := by
  obtain ⟨hdeep, cells, hcells, rfl⟩ := coneCoverageApproxCustom_unfold cfg depth deltaDepth hdd lon lat r b h
  set deep := depth + deltaDepth with hdeep_def
  obtain ⟨hw, hrange⟩ := CoverAll.coneInternal_wf cfg deep lon lat r cells hcells
  obtain ⟨v1, v2, _, v4⟩ := packed_bmoc_wf deep hdeep cells hw hrange
  obtain ⟨g1, _⟩ := packed_good lon lat r deep hdeep cells hw hrange (coneInternal_good cfg deep hdeep lon lat r hA cells hcells)
  obtain ⟨hcl, _⟩ := Lower.toLowerLoop_cells deep depth hdeep (by omega) (pack deep (cells.map (encode deep))) none v1 (by simp)
  have hc'' : decode e depth ∈ cellsOf depth (toLowerLoop deep depth (pack deep (cells.map (encode deep))) none) :=
    List.mem_map.mpr ⟨e, he, rfl⟩
  rw [hcl] at hc''
  rcases lowerCells_mem depth _ none _ hc'' with ⟨h1, h2⟩ | ⟨h1, h2⟩
  · obtain ⟨e1, he1, hdec⟩ := List.mem_map.1 h1
    have hg := g1 e1 he1
    rw [hdec] at hg
    refine ⟨hg.1, fun hf => ?_⟩
    have := hg.2 hf
    omega
  · exact ⟨fun hf => (by rw [h2] at hf; cases hf), fun _ => h1⟩

/-- a full cell not centred on the transition latitude that covers (cell numbers) a strictly equatorial cell `x`
    containing `q` contains `q` -/
theorem full_contains (D : ℕ) (c : Cell) (hne : |pcy c.depth c.hash| ≠ 1) (hcd : c.depth ≤ D) (x : ℕ)
    (hcov : x / 4 ^ (D - c.depth) = c.hash) (q : ℝ × ℝ) (hq : InCellEq D x q) : InCellEq c.depth c.hash q := by
  have hle := anc_band_le' D c.depth x hcd (by have := hq.1; omega) hq.2.2.1
  rw [hcov] at hle
  have := inCellEq_ancestor' D c.depth x hcd q hq (by rw [hcov]; exact lt_of_le_of_ne hle hne)
  rw [hcov] at this
  exact this

/-- **T3, no-miss, with `InCellEq` for the full entries**: the entry of `cone_coverage_approx_custom_no_miss_equatorial`
    contains `q` in the sense of `InCellEq` when it is flagged full (start depth `ds ≤ deep`) -/
theorem cone_coverage_approx_custom_no_miss_full (cfg : Cfg) (depth deltaDepth : ℕ) (hdd : deltaDepth ≠ 0)
    (lon lat r : ℝ) (hr : 0 ≤ r) (hA : |lat| + r < tl) (b : BMOC)
    (h : coneCoverageApproxCustom (α := ℝ) cfg depth deltaDepth lon lat r = some b)
    (ds root : ℕ) (hst : IsStartCell cfg lon lat r ds root) (hds : ds ≤ depth + deltaDepth) (q : ℝ × ℝ)
    (hq : InCellEq ds root q) (hin : adist (lon, lat) q ≤ r) :
    ∃ e ∈ b.entries, InCellPlane (decode e depth).depth (decode e depth).hash q ∧
      ((decode e depth).full = true ∨ |pcy (decode e depth).depth (decode e depth).hash| < 1 →
        InCellEq (decode e depth).depth (decode e depth).hash q) := by
  obtain ⟨e, he, hpl, x, _, hxq, hcov⟩ :=
    cone_coverage_approx_custom_no_miss_equatorial cfg depth deltaDepth hdd lon lat r hr hA b h ds root hst q hq hin
  refine ⟨e, he, hpl, ?_⟩
  rintro (hf | hband)
  · have hg := cone_coverage_approx_custom_good cfg depth deltaDepth hdd lon lat r hA b h e he
    obtain ⟨_, hv, hwf, _⟩ := CoverAll.cone_coverage_custom_wf cfg depth deltaDepth lon lat r b h
    have hcd : (decode e depth).depth ≤ depth := hwf.depth_le _ (List.mem_map.mpr ⟨e, he, rfl⟩)
    exact full_contains (depth + deltaDepth) _ (hg.1 hf).1 (by omega) x hcov q (hxq hds)
  · exact inCellPlane_eq _ _ q hpl hband

/-- `delta_depth = 0`: `cone_coverage_approx_custom` IS `cone_coverage_approx` (T1, T2 apply) -/
theorem coneCoverageApproxCustom_zero (cfg : Cfg) (depth : ℕ) (lon lat r : ℝ) (hd : depth ≤ 29) :
    coneCoverageApproxCustom (α := ℝ) cfg depth 0 lon lat r = coneCoverageApprox (α := ℝ) cfg depth lon lat r := by
  unfold coneCoverageApproxCustom
  rw [if_neg (by omega)]
  simp

/-! ## examples: the cone `lon = 1`, `lat = 0.2`, `r = 0.05`, depth 6 (`best_starting_depth(0.05) = 3 < 6`) -/

/-- the numeric hypotheses and the start cells of the concrete cone: the nine cells are the cell of the centre at depth 3
    and its neighbours; the centre itself is a position of the strictly equatorial cell `3/4` -/
example : (0 : ℝ) ≤ 1 / 20 ∧ |(1 / 5 : ℝ)| + 1 / 20 < tl ∧ bestStartingDepth (1 / 20 : ℝ) = some 3 ∧
    InCellEq 3 4 ((1 : ℝ), (1 / 5 : ℝ)) ∧ adist ((1 : ℝ), (1 / 5 : ℝ)) (1, 1 / 5) ≤ 1 / 20 := by
  obtain ⟨h1, h2, _⟩ := ex_hyps
  refine ⟨h1.le, h2, best_starting_depth_ex, ex_centre_in_cell, ?_⟩
  rw [adist_self]; norm_num

/-- a start cell of the concrete cone, from what the model computes at depth 3 -/
theorem ex_start (cfg : Cfg) (h0 : ℕ) (nm : List (MW × ℕ)) (hh0 : Hash.hashV2 (α := ℝ) cfg 3 1 (1 / 5) = some h0)
    (hnm : Topo.neighbours cfg 3 h0 true = some nm) (root : ℕ) (hroot : root ∈ nm.map (·.2)) :
    IsStartCell cfg 1 (1 / 5) (1 / 20) 3 root :=
  Or.inr ⟨(band_has_start_depth (1 / 5) (1 / 20) ex_hyps.2.1).1, best_starting_depth_ex, h0, nm, hh0, hnm, hroot⟩

/-- **T1 and T2 on the concrete cone**: whatever BMOC `cone_coverage_approx(6, 1, 0.2, 0.05)` returns, every position of the
    cone in a strictly equatorial start cell (one of the nine cells of depth 3) lies in an entry, and every entry flagged
    full — packed parents included — is inside the cone -/
example (cfg : Cfg) (b : BMOC) (h : coneCoverageApprox (α := ℝ) cfg 6 1 (1 / 5) (1 / 20) = some b) :
    (∀ h0 nm, Hash.hashV2 (α := ℝ) cfg 3 1 (1 / 5) = some h0 → Topo.neighbours cfg 3 h0 true = some nm →
      ∀ root ∈ nm.map (·.2), ∀ q, InCellEq 3 root q → adist (1, 1 / 5) q ≤ 1 / 20 →
        ∃ e ∈ b.entries, InCellEq (decode e 6).depth (decode e 6).hash q) ∧
    (∀ e ∈ b.entries, (decode e 6).full = true → ∀ q, InCellEq (decode e 6).depth (decode e 6).hash q →
      adist (1, 1 / 5) q < 1 / 20) := by
  obtain ⟨h1, h2, _⟩ := ex_hyps
  refine ⟨?_, ?_⟩
  · intro h0 nm hh0 hnm root hroot q hq hin
    exact cone_coverage_approx_no_miss_equatorial cfg 6 1 (1 / 5) (1 / 20) h1.le h2 b h 3 root
      (ex_start cfg h0 nm hh0 hnm root hroot) (by decide) q hq hin
  · intro e he hf q hq
    exact cone_coverage_approx_full_inside_equatorial cfg 6 1 (1 / 5) (1 / 20) h2 b h e he hf q hq

/-- **T3 on the concrete cone** (`depth = 4`, `delta_depth = 2`: descent at depth 6, degraded to depth 4) -/
example (cfg : Cfg) (b : BMOC) (h : coneCoverageApproxCustom (α := ℝ) cfg 4 2 1 (1 / 5) (1 / 20) = some b) :
    (∀ h0 nm, Hash.hashV2 (α := ℝ) cfg 3 1 (1 / 5) = some h0 → Topo.neighbours cfg 3 h0 true = some nm →
      ∀ root ∈ nm.map (·.2), ∀ q, InCellEq 3 root q → adist (1, 1 / 5) q ≤ 1 / 20 →
        ∃ e ∈ b.entries, InCellPlane (decode e 4).depth (decode e 4).hash q) ∧
    (∀ e ∈ b.entries, (decode e 4).full = true → ∀ q, InCellEq (decode e 4).depth (decode e 4).hash q →
      adist (1, 1 / 5) q < 1 / 20) := by
  obtain ⟨h1, h2, _⟩ := ex_hyps
  refine ⟨?_, ?_⟩
  · intro h0 nm hh0 hnm root hroot q hq hin
    obtain ⟨e, he, k, _⟩ := cone_coverage_approx_custom_no_miss_equatorial cfg 4 2 (by decide) 1 (1 / 5) (1 / 20) h1.le h2 b h
      3 root (ex_start cfg h0 nm hh0 hnm root hroot) q hq hin
    exact ⟨e, he, k⟩
  · intro e he hf q hq
    exact cone_coverage_approx_custom_full_inside_equatorial cfg 4 2 (by decide) 1 (1 / 5) (1 / 20) h2 b h e he hf q hq

/-- `pack_closure` on a concrete list: four full siblings `1/4 … 1/7` of a depth-2 BMOC are replaced by their parent `0/1`,
    and the property "flagged full" (which passes from four siblings to the parent) holds for the entries of the result -/
example : pack 2 [buildRaw 1 4 true 2, buildRaw 1 5 true 2, buildRaw 1 6 true 2, buildRaw 1 7 true 2] = [buildRaw 0 1 true 2] ∧
    ∀ r ∈ pack 2 [buildRaw 1 4 true 2, buildRaw 1 5 true 2, buildRaw 1 6 true 2, buildRaw 1 7 true 2],
      (decode r 2).full = true := by
  refine ⟨by decide +kernel, ?_⟩
  refine pack_closure (fun c => c.full = true) 2 (by decide) (fun _ _ _ _ _ _ _ _ _ _ => rfl) _ ?_ ?_
  · intro r hr
    simp only [List.mem_cons, List.not_mem_nil, or_false] at hr
    rcases hr with rfl | rfl | rfl | rfl <;> exact validRaw_buildRaw _ (by decide) (by decide)
  · intro r hr
    simp only [List.mem_cons, List.not_mem_nil, or_false] at hr
    rcases hr with rfl | rfl | rfl | rfl <;> exact decode_full_buildRaw _ _ _

end Hpx.ConeBmoc

#print axioms Hpx.ConeBmoc.cone_coverage_approx_no_miss_small
#print axioms Hpx.ConeBmoc.cone_coverage_approx_no_miss_plane
#print axioms Hpx.ConeBmoc.cone_coverage_approx_state_not_absent
#print axioms Hpx.ConeBmoc.cone_coverage_approx_custom_no_miss_equatorial
#print axioms Hpx.ConeBmoc.cone_coverage_approx_custom_full_inside_equatorial
#print axioms Hpx.ConeBmoc.cone_coverage_approx_custom_full_only_if
#print axioms Hpx.ConeBmoc.cone_coverage_approx_custom_good
#print axioms Hpx.ConeBmoc.cone_coverage_approx_custom_no_miss_full
