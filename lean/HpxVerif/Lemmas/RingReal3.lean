/-
RING scheme over the reals, for every `nside` (C11), part 3: `hashPlane` on a general point of the projection plane.
`ring_hash_contains_partial` (the cell returned contains the point) on the complement of the polar-cap seams, the exact
failure set on the north-west seam of facet 0 (finding F3), `ring_sph_coo_inverts`.
-/
import HpxVerif.Lemmas.RingReal2

namespace Hpx.RingReal
open Hpx Hpx.Ring Hpx.Proj

/-! ## the 1×1 box, exactly -/

/-- `deal_with_1x1_box` and `dldh_to_dxdy` together: the box `(a, b)` with fractional parts `(dl, dh)` is sent to the
    ring `k` and index `i'` of the diamond that owns the point, and `(dx, dy)` are the coordinates of the point in that
    diamond: with `A = 2i' + (k+1) mod 2` (abscissa of the diamond's centre in half-boxes),
    `2(a + dl) − A = dx − dy` and `2(b + dh) − k = dx + dy − 1` -/
theorem box_exact (a b : ℕ) (dl dh : ℝ) (hl0 : 0 ≤ dl) (hl1 : dl < 1) (hh0 : 0 ≤ dh) (hh1 : dh < 1) :
    2 * ((a : ℝ) + dl) - ((2 * (dealWith1x1Box dl dh (2 * b) a).2 + ((dealWith1x1Box dl dh (2 * b) a).1 + 1) % 2 : ℕ) : ℝ)
      = (dldhToDxDy dl dh).1 - (dldhToDxDy dl dh).2 ∧
    2 * ((b : ℝ) + dh) - ((dealWith1x1Box dl dh (2 * b) a).1 : ℝ) = (dldhToDxDy dl dh).1 + (dldhToDxDy dl dh).2 - 1 ∧
    0 ≤ (dldhToDxDy dl dh).1 ∧ (dldhToDxDy dl dh).1 < 1 ∧ 0 ≤ (dldhToDxDy dl dh).2 ∧ (dldhToDxDy dl dh).2 < 1 ∧
    2 * b ≤ (dealWith1x1Box dl dh (2 * b) a).1 ∧ (dealWith1x1Box dl dh (2 * b) a).1 ≤ 2 * b + 2 ∧
    a ≤ (dealWith1x1Box dl dh (2 * b) a).2 ∧ (dealWith1x1Box dl dh (2 * b) a).2 ≤ a + 1 ∧
    ((dealWith1x1Box dl dh (2 * b) a).2 = a + 1 → (dealWith1x1Box dl dh (2 * b) a).1 % 2 = 1) := by
  unfold dealWith1x1Box dldhToDxDy
  simp only [r_le, r_ge, r_lt, r_one, r_zero]
  by_cases c1 : dl ≤ dh <;> by_cases c2 : 1 - dh ≤ dl
  · have d3 : ¬ (dh + dl - 1 < 0) := by linarith
    have d4 : ¬ (dh - dl < 0) := by linarith
    simp only [c1, c2, d3, d4, decide_true, decide_false, if_true, if_false, Bool.false_eq_true]
    have e1 : (2 * b + 1 + 1 + 1) % 2 = 1 := by omega
    have e2 : (2 * b + 1 + 1) % 2 = 0 := by omega
    simp only [e1, e2]
    simp only [show (1 : ℕ) >>> 1 = 0 from rfl, show (0 : ℕ) >>> 1 = 0 from rfl, show (1 : ℕ) >>> 0 = 1 from rfl,
      show (0 : ℕ) >>> 0 = 0 from rfl, Nat.add_zero]
    refine ⟨by push_cast; ring, by push_cast; ring, by linarith, by linarith, by linarith, by linarith,
      by omega, by omega, by omega, by omega, by omega⟩
  · have d3 : dh + dl - 1 < 0 := by linarith
    have d4 : ¬ (dh - dl < 0) := by linarith
    simp only [c1, c2, d3, d4, decide_true, decide_false, if_true, if_false, Bool.false_eq_true]
    have e1 : (2 * b + 1 + 0 + 1) % 2 = 0 := by omega
    have e2 : (2 * b + 1 + 0) % 2 = 1 := by omega
    simp only [e1, e2]
    simp only [show (1 : ℕ) >>> 1 = 0 from rfl, show (0 : ℕ) >>> 1 = 0 from rfl, show (1 : ℕ) >>> 0 = 1 from rfl,
      show (0 : ℕ) >>> 0 = 0 from rfl, Nat.add_zero]
    refine ⟨by push_cast; ring, by push_cast; ring, by linarith, by linarith, by linarith, by linarith,
      by omega, by omega, by omega, by omega, by omega⟩
  · have d3 : ¬ (dh + dl - 1 < 0) := by linarith
    have d4 : dh - dl < 0 := by linarith
    simp only [c1, c2, d3, d4, decide_true, decide_false, if_true, if_false, Bool.false_eq_true]
    have e1 : (2 * b + 0 + 1 + 1) % 2 = 0 := by omega
    have e2 : (2 * b + 0 + 1) % 2 = 1 := by omega
    simp only [e1, e2]
    simp only [show (1 : ℕ) >>> 1 = 0 from rfl, show (0 : ℕ) >>> 1 = 0 from rfl, show (1 : ℕ) >>> 0 = 1 from rfl,
      show (0 : ℕ) >>> 0 = 0 from rfl, Nat.add_zero]
    refine ⟨by push_cast; ring, by push_cast; ring, by linarith, by linarith, by linarith, by linarith,
      by omega, by omega, by omega, by omega, by omega⟩
  · have d3 : dh + dl - 1 < 0 := by linarith
    have d4 : dh - dl < 0 := by linarith
    simp only [c1, c2, d3, d4, decide_true, decide_false, if_true, if_false, Bool.false_eq_true]
    have e1 : (2 * b + 0 + 0 + 1) % 2 = 1 := by omega
    have e2 : (2 * b + 0 + 0) % 2 = 0 := by omega
    simp only [e1, e2]
    simp only [show (1 : ℕ) >>> 1 = 0 from rfl, show (0 : ℕ) >>> 1 = 0 from rfl, show (1 : ℕ) >>> 0 = 1 from rfl,
      show (0 : ℕ) >>> 0 = 0 from rfl, Nat.add_zero]
    refine ⟨by push_cast; ring, by push_cast; ring, by linarith, by linarith, by linarith, by linarith,
      by omega, by omega, by omega, by omega, by omega⟩

end Hpx.RingReal
