/-
RING scheme over the reals, for every `nside` (C11), part 3: `hashPlane` on a general point of the projection plane.
`ring_hash_contains_partial` (the cell returned contains the point) on the complement of the polar-cap seams, the exact
failure set on the north-west seam of facet 0 (finding F3), `ring_sph_coo_inverts`.
-/
import HpxVerif.Lemmas.RingReal2

namespace Hpx.RingReal
open Hpx Hpx.Ring Hpx.Proj

/-! ## the 1×1 box, exactly -/

set_option linter.unusedSimpArgs false in
/-- `deal_with_1x1_box` and `dldh_to_dxdy` together: the box `(a, b)` with fractional parts `(dl, dh)` is sent to the
    ring `k` and index `i'` of the diamond that owns the point, and `(dx, dy)` are the coordinates of the point in that
    diamond: with `A = 2i' + (k+1) mod 2` (abscissa of the diamond's centre in half-boxes),
    `2(a + dl) − A = dx − dy` and `2(b + dh) − k = dx + dy − 1` -/
theorem box_exact (a b : ℕ) (dl dh : ℝ) (hl0 : 0 ≤ dl) (hl1 : dl < 1) (hh0 : 0 ≤ dh) (hh1 : dh < 1) :
    2 * ((a : ℝ) + dl) - ((2 * (dealWith1x1Box dl dh (2 * b) a).2 + ((dealWith1x1Box dl dh (2 * b) a).1 + 1) % 2 : ℕ) : ℝ)
      = (dldhToDxDy dl dh).1 - (dldhToDxDy dl dh).2 ∧
    2 * ((b : ℝ) + dh) - ((dealWith1x1Box dl dh (2 * b) a).1 : ℝ) = (dldhToDxDy dl dh).1 + (dldhToDxDy dl dh).2 - 1 ∧
    0 ≤ (dldhToDxDy dl dh).1 ∧ (dldhToDxDy dl dh).1 < 1 ∧ 0 ≤ (dldhToDxDy dl dh).2 ∧ (dldhToDxDy dl dh).2 < 1 ∧
    2 * b ≤ (dealWith1x1Box dl dh (2 * b) a).1 ∧ (dealWith1x1Box dl dh (2 * b) a).1 ≤ 2 * b + 2 ∧
    a ≤ (dealWith1x1Box dl dh (2 * b) a).2 ∧ (dealWith1x1Box dl dh (2 * b) a).2 ≤ a + 1 ∧
    ((dealWith1x1Box dl dh (2 * b) a).2 = a + 1 → (dealWith1x1Box dl dh (2 * b) a).1 % 2 = 1) := by
  unfold dealWith1x1Box dldhToDxDy
  simp only [r_le, r_ge, r_lt, r_one, r_zero]
  by_cases c1 : dl ≤ dh <;> by_cases c2 : 1 - dh ≤ dl
  · have d3 : ¬ (dh + dl - 1 < 0) := by linarith
    have d4 : ¬ (dh - dl < 0) := by linarith
    simp only [c1, c2, d3, d4, decide_true, decide_false, if_true, if_false, Bool.false_eq_true]
    have e1 : (2 * b + 1 + 1 + 1) % 2 = 1 := by omega
    have e2 : (2 * b + 1 + 1) % 2 = 0 := by omega
    simp only [e1, e2]
    simp only [show (1 : ℕ) >>> 1 = 0 from rfl, show (0 : ℕ) >>> 1 = 0 from rfl, show (1 : ℕ) >>> 0 = 1 from rfl,
      show (0 : ℕ) >>> 0 = 0 from rfl, Nat.add_zero]
    refine ⟨by push_cast; ring, by push_cast; ring, by linarith, by linarith, by linarith, by linarith,
      by omega, by omega, by omega, by omega, by omega⟩
  · have d3 : dh + dl - 1 < 0 := by linarith
    have d4 : ¬ (dh - dl < 0) := by linarith
    simp only [c1, c2, d3, d4, decide_true, decide_false, if_true, if_false, Bool.false_eq_true]
    have e1 : (2 * b + 1 + 0 + 1) % 2 = 0 := by omega
    have e2 : (2 * b + 1 + 0) % 2 = 1 := by omega
    simp only [e1, e2]
    simp only [show (1 : ℕ) >>> 1 = 0 from rfl, show (0 : ℕ) >>> 1 = 0 from rfl, show (1 : ℕ) >>> 0 = 1 from rfl,
      show (0 : ℕ) >>> 0 = 0 from rfl, Nat.add_zero]
    refine ⟨by push_cast; ring, by push_cast; ring, by linarith, by linarith, by linarith, by linarith,
      by omega, by omega, by omega, by omega, by omega⟩
  · have d3 : ¬ (dh + dl - 1 < 0) := by linarith
    have d4 : dh - dl < 0 := by linarith
    simp only [c1, c2, d3, d4, decide_true, decide_false, if_true, if_false, Bool.false_eq_true]
    have e1 : (2 * b + 0 + 1 + 1) % 2 = 0 := by omega
    have e2 : (2 * b + 0 + 1) % 2 = 1 := by omega
    simp only [e1, e2]
    simp only [show (1 : ℕ) >>> 1 = 0 from rfl, show (0 : ℕ) >>> 1 = 0 from rfl, show (1 : ℕ) >>> 0 = 1 from rfl,
      show (0 : ℕ) >>> 0 = 0 from rfl, Nat.add_zero]
    refine ⟨by push_cast; ring, by push_cast; ring, by linarith, by linarith, by linarith, by linarith,
      by omega, by omega, by omega, by omega, fun _ => trivial⟩
  · have d3 : dh + dl - 1 < 0 := by linarith
    have d4 : dh - dl < 0 := by linarith
    simp only [c1, c2, d3, d4, decide_true, decide_false, if_true, if_false, Bool.false_eq_true]
    have e1 : (2 * b + 0 + 0 + 1) % 2 = 1 := by omega
    have e2 : (2 * b + 0 + 0) % 2 = 0 := by omega
    simp only [e1, e2]
    simp only [show (1 : ℕ) >>> 1 = 0 from rfl, show (0 : ℕ) >>> 1 = 0 from rfl, show (1 : ℕ) >>> 0 = 1 from rfl,
      show (0 : ℕ) >>> 0 = 0 from rfl, Nat.add_zero]
    refine ⟨by push_cast; ring, by push_cast; ring, by linarith, by linarith, by linarith, by linarith,
      by omega, by omega, by omega, by omega, by omega⟩

/-- a general point of the projection plane enters the integer tail with a ring `K` and an index `I'` such that the
    diamond centred at `((2I' + (K+1) mod 2)/n, K/n − 3)` owns the point, at offsets `(dx, dy) = dldh_to_dxdy dl dh` -/
theorem hashPlane_general (debug : Bool) {n : Nat} (hn : 1 ≤ n) (hn30 : n < 2 ^ 30) {X Y : ℝ} (hX0 : 0 ≤ X) (hX8 : X < 8)
    (hY0 : -2 ≤ Y) (hY2 : Y ≤ 2) :
    ∃ (K I' : ℕ) (dl dh : ℝ), hashPlane debug n X Y = hashTail debug n dl dh K I' ∧
      0 ≤ dl ∧ dl < 1 ∧ 0 ≤ dh ∧ dh < 1 ∧
      (n : ℝ) * X - ((2 * I' + (K + 1) % 2 : ℕ) : ℝ) = (dldhToDxDy dl dh).1 - (dldhToDxDy dl dh).2 ∧
      (n : ℝ) * (Y + 3) - (K : ℝ) = (dldhToDxDy dl dh).1 + (dldhToDxDy dl dh).2 - 1 ∧
      0 ≤ (dldhToDxDy dl dh).1 ∧ (dldhToDxDy dl dh).1 < 1 ∧ 0 ≤ (dldhToDxDy dl dh).2 ∧ (dldhToDxDy dl dh).2 < 1 ∧
      I' ≤ 4 * n ∧ (I' = 4 * n → K % 2 = 1) := by
  have hn0 : (0 : ℝ) < n := by exact_mod_cast hn
  have h1 : 0 ≤ 1 / 2 * (n : ℝ) * X := by positivity
  have h2 : 0 ≤ 1 / 2 * (n : ℝ) * (Y + 3) := by
    have : 0 ≤ Y + 3 := by linarith
    positivity
  have ha1 := Nat.floor_le h1
  have ha2 := Nat.lt_floor_add_one (1 / 2 * (n : ℝ) * X)
  have hb1 := Nat.floor_le h2
  have hb2 := Nat.lt_floor_add_one (1 / 2 * (n : ℝ) * (Y + 3))
  generalize ⌊1 / 2 * (n : ℝ) * X⌋₊ = a at ha1 ha2
  generalize ⌊1 / 2 * (n : ℝ) * (Y + 3)⌋₊ = b at hb1 hb2
  have hbox := hashPlane_box debug hn hn30 hX0 hX8 hY0 hY2 a b ha1 ha2 hb1 hb2
  obtain ⟨e1, e2, d1, d2, d3, d4, -, -, k1, k2, k3⟩ :=
    box_exact a b (1 / 2 * n * X - a) (1 / 2 * n * (Y + 3) - b) (by linarith) (by linarith) (by linarith) (by linarith)
  have ha4 : a < 4 * n := by
    have : (a : ℝ) < 4 * n := by nlinarith
    exact_mod_cast this
  refine ⟨_, _, _, _, hbox, by linarith, by linarith, by linarith, by linarith, ?_, ?_, d1, d2, d3, d4, by omega,
    fun h => k3 (by omega)⟩
  · rw [← e1]; ring
  · rw [← e2]; ring

/-! ## which cell owns the diamond `(K, I')` -/

theorem hashTail_eq_branch {α : Type} [Num α] (debug : Bool) {n r : Nat} (dl dh : α) (I : Nat) (hn : 1 ≤ n) (h1 : n ≤ r)
    (h2 : r < 3 * n) :
    hashTail debug n dl dh (5 * n - 1 - r) I
      = some (tri4 n + (r - n) * (n <<< 2) + (if I == n <<< 2 then 0 else I), dl, dh) := by
  unfold hashTail
  rw [if_neg (by omega), sub64_of_le (by omega : 1 ≤ 5 * n)]
  simp only []
  rw [sub64_of_le (by omega : 5 * n - 1 - r ≤ 5 * n - 1)]
  simp only []
  have ek : 5 * n - 1 - (5 * n - 1 - r) = r := by omega
  rw [ek, if_neg (by omega), if_neg (by omega), if_neg (by omega)]

/-- in the (proper) equatorial branch the index `4n` (east border of the plane) is folded onto `0` -/
theorem hashTail_wrap {α : Type} [Num α] (debug : Bool) {n r : Nat} (dl dh : α) (hn : 1 ≤ n) (h1 : n ≤ r) (h2 : r < 3 * n) :
    hashTail debug n dl dh (5 * n - 1 - r) (4 * n) = hashTail debug n dl dh (5 * n - 1 - r) 0 := by
  rw [hashTail_eq_branch debug dl dh _ hn h1 h2, hashTail_eq_branch debug dl dh _ hn h1 h2]
  have e4 : n <<< 2 = 4 * n := by rw [Nat.shiftLeft_eq]; omega
  have e5 : (0 == 4 * n) = false := by simp; omega
  simp [e4, e5]

/-- equatorial-type rings `2n ≤ K ≤ 4n` (the transition rings included): every diamond is a cell -/
theorem cell_of_eq {α : Type} [Num α] (debug : Bool) {n K I' : Nat} (dl dh : α) (hn : 1 ≤ n) (hn30 : n < 2 ^ 30)
    (hK1 : 2 * n ≤ K) (hK2 : K ≤ 4 * n) (hI : I' ≤ 4 * n) (hI4 : I' = 4 * n → K % 2 = 1) :
    ∃ r i, r < 4 * n - 1 ∧ i < 4 * perFacet n r ∧ K = 5 * n - 1 - r ∧ K + r + 1 = 5 * n ∧
      hashTail debug n dl dh K I' = some (ringStart n r + i, dl, dh) ∧
      (cxI n r i = 2 * I' + (K + 1) % 2 ∨ cxI n r i + 8 * n = 2 * I' + (K + 1) % 2) := by
  have hr : 5 * n - 1 - K < 4 * n - 1 := by omega
  have hm : perFacet n (5 * n - 1 - K) = n := by unfold perFacet; rw [if_neg (by omega), if_pos (by omega)]
  have hc : cxOff n (5 * n - 1 - K) = (K + 1) % 2 := by
    unfold cxOff; rw [if_neg (by omega), if_pos (by omega)]; omega
  have hcx : ∀ i, cxI n (5 * n - 1 - K) i = 2 * i + (K + 1) % 2 := by
    intro i
    have hdm := Nat.div_add_mod i n
    unfold cxI; rw [hm, hc, Nat.mul_assoc]; omega
  have hK : K = 5 * n - 1 - (5 * n - 1 - K) := by omega
  by_cases h4 : I' < 4 * n
  · refine ⟨5 * n - 1 - K, I', hr, by rw [hm]; omega, hK, by omega, ?_, Or.inl (hcx I')⟩
    have := hashTail_ring debug (r := 5 * n - 1 - K) (i := I') dl dh hn hn30 hr (by rw [hm]; omega)
    rw [hcx, ← hK] at this
    rw [← this]; congr 1; omega
  · have e : I' = 4 * n := by omega
    have hodd := hI4 e
    refine ⟨5 * n - 1 - K, 0, hr, by rw [hm]; omega, hK, by omega, ?_, Or.inr (by rw [hcx]; omega)⟩
    have := hashTail_ring debug (r := 5 * n - 1 - K) (i := 0) dl dh hn hn30 hr (by rw [hm]; omega)
    rw [hcx, ← hK] at this
    rw [e, hK, hashTail_wrap debug dl dh hn (by omega) (by omega), ← hK, ← this]
    congr 1; omega

/-- polar-cap rings: `off ≥ 1` rings away from the transition ring, `n − off` cells per facet; a diamond whose centre
    abscissa `A` lies within the facet triangle (`|A − (2q+1)n| ≤ n − off − 1`, right parity) is a cell -/
theorem cell_of_cap {α : Type} [Num α] (debug : Bool) {n r off q I' e : Nat} (dl dh : α) (hn : 1 ≤ n) (hn30 : n < 2 ^ 30)
    (hr : r < 4 * n - 1) (hoff : off < n) (hm : perFacet n r = n - off) (hc : cxOff n r = off + 1) (hq : q < 4)
    (he : e = (off + 1) % 2) (hA1 : 2 * (n * q) + off + 1 ≤ 2 * I' + e) (hA2 : 2 * I' + e + off + 1 ≤ 2 * (n * q) + 2 * n) :
    ∃ i, i < 4 * perFacet n r ∧ hashTail debug n dl dh (5 * n - 1 - r) I' = some (ringStart n r + i, dl, dh) ∧
      cxI n r i = 2 * I' + e := by
  have hj : (2 * I' + e - 2 * (n * q) - off - 1) / 2 < n - off := by omega
  have hcx : cxI n r (q * perFacet n r + (2 * I' + e - 2 * (n * q) - off - 1) / 2) = 2 * I' + e := by
    rw [cxI_facet (by rw [hm]; exact hj), hc, Nat.mul_assoc]; omega
  have hi : q * perFacet n r + (2 * I' + e - 2 * (n * q) - off - 1) / 2 < 4 * perFacet n r := by
    rw [hm]
    have : q * (n - off) ≤ 3 * (n - off) := Nat.mul_le_mul_right _ (by omega)
    omega
  refine ⟨_, hi, ?_, hcx⟩
  have := hashTail_ring debug (r := r) dl dh hn hn30 hr hi
  rw [hcx] at this
  rw [← this]; congr 1; omega

/-! ## the hash of a general point -/

/-- the part of the projection plane on which the RING hash is proved correct: the equatorial band `−1 ≤ y < 1`, the
    interior of the four north Collignon triangles together with their open base (`y = 1`, `x ≠ 0, 2, 4, 6`), the four
    CLOSED south triangles (edges and south pole included: a diamond owns its two southern edges, so the southern
    seams are harmless in exact arithmetic).  What is left out of the projected domain is exactly the two slanted edges
    of the north triangles (`|x − (2q+1)| = 2 − y`, `1 ≤ y ≤ 2`: the seams `lon = q·π/2` of the north cap, the base-cell
    corners `(2q, 1)` and the north pole included). -/
def GoodPoint (X Y : ℝ) : Prop :=
  0 ≤ X ∧ X < 8 ∧
  ((-1 ≤ Y ∧ Y < 1) ∨
   (1 ≤ Y ∧ Y < 2 ∧ ∃ q : ℕ, q < 4 ∧ |X - (2 * q + 1)| < 2 - Y) ∨
   (-2 ≤ Y ∧ Y < -1 ∧ ∃ q : ℕ, q < 4 ∧ |X - (2 * q + 1)| ≤ 2 + Y))

/-- the hypotheses are satisfiable: an equatorial point, a north-cap point, a south-cap point -/
example : GoodPoint 7.5 0.25 ∧ GoodPoint 3.25 1.5 ∧ GoodPoint 0.5 (-1.5) := by
  refine ⟨⟨by norm_num, by norm_num, Or.inl ⟨by norm_num, by norm_num⟩⟩,
    ⟨by norm_num, by norm_num, Or.inr (Or.inl ⟨by norm_num, by norm_num, 1, by norm_num, ?_⟩)⟩,
    ⟨by norm_num, by norm_num, Or.inr (Or.inr ⟨by norm_num, by norm_num, 0, by norm_num, ?_⟩)⟩⟩
  · rw [abs_lt]; constructor <;> norm_num
  · rw [abs_le]; constructor <;> norm_num

/-- integer heart of `hashPlane_point`: the diamond `(K, I')` that owns a good point is a cell -/
theorem point_core (debug : Bool) {n : Nat} (hn : 1 ≤ n) (hn30 : n < 2 ^ 30) {X Y : ℝ}
    (hreg : (-1 ≤ Y ∧ Y < 1) ∨ (1 ≤ Y ∧ Y < 2 ∧ ∃ q : ℕ, q < 4 ∧ |X - (2 * q + 1)| < 2 - Y) ∨
      (-2 ≤ Y ∧ Y < -1 ∧ ∃ q : ℕ, q < 4 ∧ |X - (2 * q + 1)| ≤ 2 + Y))
    (K I' : ℕ) (dl dh dx dy : ℝ)
    (eu : (n : ℝ) * X - ((2 * I' + (K + 1) % 2 : ℕ) : ℝ) = dx - dy) (ev : (n : ℝ) * (Y + 3) - (K : ℝ) = dx + dy - 1)
    (x0 : 0 ≤ dx) (x1 : dx < 1) (y0 : 0 ≤ dy) (y1 : dy < 1) (hI : I' ≤ 4 * n) (hI4 : I' = 4 * n → K % 2 = 1) :
    ∃ (r i : ℕ), r < 4 * n - 1 ∧ i < 4 * perFacet n r ∧
      hashTail debug n dl dh K I' = some (ringStart n r + i, dl, dh) ∧
      ((n : ℝ) * X = cxI n r i + (dx - dy) ∨ (n : ℝ) * X - 8 * n = cxI n r i + (dx - dy)) ∧
      (n : ℝ) * Y = cyI n r + (dx + dy - 1) := by
  have hn0 : (0 : ℝ) < n := by exact_mod_cast hn
  -- the equatorial-type conclusion, shared by the three regions
  have eqcase : 2 * n ≤ K → K ≤ 4 * n → ∃ (r i : ℕ), r < 4 * n - 1 ∧ i < 4 * perFacet n r ∧
      hashTail debug n dl dh K I' = some (ringStart n r + i, dl, dh) ∧
      ((n : ℝ) * X = cxI n r i + (dx - dy) ∨ (n : ℝ) * X - 8 * n = cxI n r i + (dx - dy)) ∧
      (n : ℝ) * Y = cyI n r + (dx + dy - 1) := by
    intro hK1 hK2
    obtain ⟨r, i, hr, hi, -, hKr, ht, hcx⟩ := cell_of_eq debug dl dh hn hn30 hK1 hK2 hI hI4
    have hcy : (cyI n r : ℝ) = (K : ℝ) - 3 * n := by
      have : cyI n r = (K : ℤ) - 3 * (n : ℤ) := by unfold cyI; omega
      rw [this]; push_cast; ring
    refine ⟨r, i, hr, hi, ht, ?_, by rw [hcy]; linarith⟩
    rcases hcx with h | h
    · left; rw [h]; linarith
    · right
      have : ((cxI n r i : ℕ) : ℝ) + 8 * n = ((2 * I' + (K + 1) % 2 : ℕ) : ℝ) := by rw [← h]; push_cast; ring
      linarith
  rcases hreg with ⟨h1, h2⟩ | ⟨h1, h2, q, hq, hab⟩ | ⟨h1, h2, q, hq, hab⟩
  · -- equatorial band
    have hK1 : 2 * n ≤ K := by
      have : 2 * (n : ℝ) < K + 1 := by nlinarith
      have : 2 * n < K + 1 := by exact_mod_cast this
      omega
    have hK2 : K ≤ 4 * n := by
      have : (K : ℝ) < 4 * n + 1 := by nlinarith
      have : K < 4 * n + 1 := by exact_mod_cast this
      omega
    exact eqcase hK1 hK2
  · -- north cap, strictly inside a facet triangle
    have hK1 : 4 * n ≤ K := by
      have : 4 * (n : ℝ) < K + 1 := by nlinarith
      have : 4 * n < K + 1 := by exact_mod_cast this
      omega
    by_cases hK4 : K = 4 * n
    · exact eqcase (by omega) (by omega)
    · rw [abs_lt] at hab
      have m1 : (n : ℝ) * (X - (2 * q + 1)) < n * (2 - Y) := mul_lt_mul_of_pos_left hab.2 hn0
      have m2 : (n : ℝ) * (-(2 - Y)) < n * (X - (2 * q + 1)) := mul_lt_mul_of_pos_left hab.1 hn0
      have c1 : ((2 * I' + (K + 1) % 2 : ℕ) : ℝ) + K < ((2 * q + 1) * n + 5 * n + 1 : ℕ) := by
        push_cast; push_cast at eu; nlinarith
      have c2 : (((2 * q + 1) * n + K : ℕ) : ℝ) < ((2 * I' + (K + 1) % 2 + 5 * n + 1 : ℕ) : ℝ) := by
        push_cast; push_cast at eu; nlinarith
      have c1' : 2 * I' + (K + 1) % 2 + K < (2 * q + 1) * n + 5 * n + 1 := by exact_mod_cast c1
      have c2' : (2 * q + 1) * n + K < 2 * I' + (K + 1) % 2 + 5 * n + 1 := by exact_mod_cast c2
      have eC : (2 * q + 1) * n = 2 * (n * q) + n := by ring
      rw [eC] at c1' c2'
      have hr : 5 * n - 1 - K < 4 * n - 1 := by omega
      have hm : perFacet n (5 * n - 1 - K) = n - (K - 4 * n) := by
        unfold perFacet; rw [if_pos (by omega)]; omega
      have hc : cxOff n (5 * n - 1 - K) = (K - 4 * n) + 1 := by
        unfold cxOff; rw [if_pos (by omega)]; omega
      obtain ⟨i, hi, ht, hcx⟩ := cell_of_cap debug (n := n) (r := 5 * n - 1 - K) (off := K - 4 * n) (q := q) (I' := I')
        (e := (K + 1) % 2) dl dh hn hn30 hr (by omega) hm hc hq (by omega) (by omega) (by omega)
      have hK : 5 * n - 1 - (5 * n - 1 - K) = K := by omega
      rw [hK] at ht
      have hcy : (cyI n (5 * n - 1 - K) : ℝ) = (K : ℝ) - 3 * n := by
        have : cyI n (5 * n - 1 - K) = (K : ℤ) - 3 * (n : ℤ) := by unfold cyI; omega
        rw [this]; push_cast; ring
      exact ⟨_, i, hr, hi, ht, Or.inl (by rw [hcx]; linarith),
        by rw [hcy]; linarith⟩
  · -- south cap, strictly inside a facet triangle
    have hK2 : K ≤ 2 * n := by
      have : (K : ℝ) < 2 * n + 1 := by nlinarith
      have : K < 2 * n + 1 := by exact_mod_cast this
      omega
    by_cases hK4 : K = 2 * n
    · exact eqcase (by omega) (by omega)
    · rw [abs_le] at hab
      have m1 : (n : ℝ) * (X - (2 * q + 1)) ≤ n * (2 + Y) := mul_le_mul_of_nonneg_left hab.2 (le_of_lt hn0)
      have m2 : (n : ℝ) * (-(2 + Y)) ≤ n * (X - (2 * q + 1)) := mul_le_mul_of_nonneg_left hab.1 (le_of_lt hn0)
      have c1 : ((2 * I' + (K + 1) % 2 + n : ℕ) : ℝ) < ((2 * q + 1) * n + K + 1 : ℕ) := by
        push_cast; push_cast at eu; nlinarith
      have c2 : (((2 * q + 1) * n + n : ℕ) : ℝ) < ((2 * I' + (K + 1) % 2 + K + 1 : ℕ) : ℝ) := by
        push_cast; push_cast at eu; nlinarith
      have c1' : 2 * I' + (K + 1) % 2 + n < (2 * q + 1) * n + K + 1 := by exact_mod_cast c1
      have c2' : (2 * q + 1) * n + n < 2 * I' + (K + 1) % 2 + K + 1 := by exact_mod_cast c2
      have eC : (2 * q + 1) * n = 2 * (n * q) + n := by ring
      rw [eC] at c1' c2'
      have hr : 5 * n - 1 - K < 4 * n - 1 := by omega
      have hm : perFacet n (5 * n - 1 - K) = n - (2 * n - K) := by
        unfold perFacet; rw [if_neg (by omega), if_neg (by omega)]; omega
      have hc : cxOff n (5 * n - 1 - K) = (2 * n - K) + 1 := by
        unfold cxOff; rw [if_neg (by omega), if_neg (by omega)]; omega
      obtain ⟨i, hi, ht, hcx⟩ := cell_of_cap debug (n := n) (r := 5 * n - 1 - K) (off := 2 * n - K) (q := q) (I' := I')
        (e := (K + 1) % 2) dl dh hn hn30 hr (by omega) hm hc hq (by omega) (by omega) (by omega)
      have hK : 5 * n - 1 - (5 * n - 1 - K) = K := by omega
      rw [hK] at ht
      have hcy : (cyI n (5 * n - 1 - K) : ℝ) = (K : ℝ) - 3 * n := by
        have : cyI n (5 * n - 1 - K) = (K : ℤ) - 3 * (n : ℤ) := by unfold cyI; omega
        rw [this]; push_cast; ring
      exact ⟨_, i, hr, hi, ht, Or.inl (by rw [hcx]; linarith),
        by rw [hcy]; linarith⟩


/-- core of items 4 and 5: on a good point the plane hash returns a cell `(r, i)` (in both profiles), and the point is
    the point of offsets `(dx, dy) = dldh_to_dxdy dl dh ∈ [0,1)²` of that cell: `n·x = cxI + dx − dy` (modulo `8n`: a cell
    centred on `x = 0` also owns the points just west of `x = 8`), `n·y = cyI + dx + dy − 1`. -/
theorem hashPlane_point (debug : Bool) {n : Nat} (hn : 1 ≤ n) (hn30 : n < 2 ^ 30) {X Y : ℝ} (hg : GoodPoint X Y) :
    ∃ (r i : ℕ) (dl dh : ℝ), r < 4 * n - 1 ∧ i < 4 * perFacet n r ∧
      hashPlane debug n X Y = some (ringStart n r + i, dl, dh) ∧ 0 ≤ dl ∧ dl < 1 ∧ 0 ≤ dh ∧ dh < 1 ∧
      0 ≤ (dldhToDxDy dl dh).1 ∧ (dldhToDxDy dl dh).1 < 1 ∧ 0 ≤ (dldhToDxDy dl dh).2 ∧ (dldhToDxDy dl dh).2 < 1 ∧
      ((n : ℝ) * X = cxI n r i + ((dldhToDxDy dl dh).1 - (dldhToDxDy dl dh).2) ∨
       (n : ℝ) * X - 8 * n = cxI n r i + ((dldhToDxDy dl dh).1 - (dldhToDxDy dl dh).2)) ∧
      (n : ℝ) * Y = cyI n r + ((dldhToDxDy dl dh).1 + (dldhToDxDy dl dh).2 - 1) := by
  obtain ⟨hX0, hX8, hreg⟩ := hg
  have hY0 : -2 ≤ Y := by rcases hreg with h | h | h <;> linarith [h.1]
  have hY2 : Y ≤ 2 := by
    rcases hreg with h | h | h
    · linarith [h.2]
    · linarith [h.2.1]
    · linarith [h.2.1]
  obtain ⟨K, I', dl, dh, hP, l0, l1, g0, g1, eu, ev, x0, x1, y0, y1, hI, hI4⟩ :=
    hashPlane_general debug hn hn30 hX0 hX8 hY0 hY2
  obtain ⟨r, i, hr, hi, ht, hx, hy⟩ := point_core debug hn hn30 hreg K I' dl dh _ _ eu ev x0 x1 y0 y1 hI hI4
  exact ⟨r, i, dl, dh, hr, hi, by rw [hP, ht], l0, l1, g0, g1, x0, x1, y0, y1, hx, hy⟩

theorem abs_offsets_le {dx dy : ℝ} (x0 : 0 ≤ dx) (x1 : dx < 1) (y0 : 0 ≤ dy) (y1 : dy < 1) :
    |dx - dy| + |dx + dy - 1| ≤ 1 := by
  rcases abs_cases (dx - dy) with h | h <;> rcases abs_cases (dx + dy - 1) with h' | h' <;> linarith [h.1, h'.1]

/-- `ring_hash_plane_range` + `ring_hash_contains`, **partial** (task item 4): for every `nside = n ≥ 1` and every
    `GoodPoint` of the projection plane, `hashPlane` returns (in both profiles) a cell number `h < 12 n²` and box
    offsets in `[0,1)²`, and the closed diamond of half-diagonal `1/n` around the centre of `h` contains the point
    (modulo 8 in `x`: the cells centred on `x = 0` straddle the cut `x = 0 ≡ 8`).
    What is missing with respect to the full statement: the points of the projected domain that are not `GoodPoint`s,
    i.e. the seams between the polar-cap facets and the two poles.  The statement is FALSE there (finding F3), see
    `hashPlane_seam_north_west`, `seam_witness_*` below. -/
theorem ring_hash_contains_partial (debug : Bool) {n : Nat} (hn : 1 ≤ n) (hn30 : n < 2 ^ 30) (hRI : RingIndexExact n)
    {X Y : ℝ} (hg : GoodPoint X Y) :
    ∃ (h : ℕ) (dl dh cx cy : ℝ), hashPlane debug n X Y = some (h, dl, dh) ∧ h < 12 * n * n ∧
      0 ≤ dl ∧ dl < 1 ∧ 0 ≤ dh ∧ dh < 1 ∧ centerOfProjectedCell (α := ℝ) debug n h = some (cx, cy) ∧
      (|X - cx| + |Y - cy| ≤ 1 / n ∨ |X - 8 - cx| + |Y - cy| ≤ 1 / n) := by
  obtain ⟨r, i, dl, dh, hr, hi, hP, l0, l1, g0, g1, x0, x1, y0, y1, hx, hy⟩ := hashPlane_point debug hn hn30 hg
  have hn0 : (0 : ℝ) < n := by exact_mod_cast hn
  have hab := abs_offsets_le x0 x1 y0 y1
  generalize (dldhToDxDy dl dh).1 = dx at *
  generalize (dldhToDxDy dl dh).2 = dy at *
  refine ⟨_, dl, dh, _, _, hP, ringStart_add_lt hn hr hi, l0, l1, g0, g1, center_eq debug hn hn30 hRI hr hi, ?_⟩
  have ey : Y - (cyI n r : ℝ) / n = (dx + dy - 1) / n := by field_simp; linarith
  have hdiv : |dx - dy| / (n : ℝ) + |dx + dy - 1| / n ≤ 1 / n := by
    rw [← add_div]; exact div_le_div_of_nonneg_right hab (le_of_lt hn0)
  rcases hx with h | h
  · left
    have ex : X - (cxI n r i : ℝ) / n = (dx - dy) / n := by field_simp; linarith
    rw [ex, ey, abs_div, abs_div, abs_of_pos hn0]; exact hdiv
  · right
    have ex : X - 8 - (cxI n r i : ℝ) / n = (dx - dy) / n := by field_simp; linarith
    rw [ex, ey, abs_div, abs_div, abs_of_pos hn0]; exact hdiv

/-- `ring_hash_plane_range`, **partial**: the cell number is in range on every `GoodPoint` (missing: the seams, where it
    is false in the release profile, cf. `seam_witness_release`) -/
theorem ring_hash_plane_range_partial (debug : Bool) {n : Nat} (hn : 1 ≤ n) (hn30 : n < 2 ^ 30) {X Y : ℝ}
    (hg : GoodPoint X Y) : ∃ (h : ℕ) (dl dh : ℝ), hashPlane debug n X Y = some (h, dl, dh) ∧ h < 12 * n * n := by
  obtain ⟨r, i, dl, dh, hr, hi, hP, -⟩ := hashPlane_point debug hn hn30 hg
  exact ⟨_, dl, dh, hP, ringStart_add_lt hn hr hi⟩

/-! ## `sph_coo` inverts `hash_with_dxdy` -/

/-- the plane part of `hash_with_dxdy` -/
def hashPlaneDxDy {α : Type} [Num α] (debug : Bool) (nside : Nat) (X Y : α) : Option (Nat × α × α) :=
  (hashPlane debug nside X Y).map fun r => let d := dldhToDxDy r.2.1 r.2.2; (r.1, d.1, d.2)

theorem hashWithDxDy_eq {α : Type} [Num α] (debug : Bool) (nside : Nat) (lon lat : α) :
    hashWithDxDy debug nside lon lat = (proj lon lat).bind (fun xy => hashPlaneDxDy debug nside xy.1 xy.2) := by
  unfold hashWithDxDy hashPlaneDxDy
  rw [hashWithDlDh_eq]
  cases proj lon lat with
  | none => rfl
  | some xy => rfl

/-- `ring_sph_coo_inverts` (task item 5), in the plane: on a `GoodPoint`, if `hash_with_dxdy` returns `(h, dx, dy)` then
    `sph_coo(h, dx, dy)` is defined and is `unproj` of the original plane point (the offsets are automatically in
    `[0,1)²` there; at a pole `hash_with_dldh` returns `(dl, dh) = (1, 1)`, i.e. `dx = 1`, which `sph_coo` rejects). -/
theorem ring_sph_coo_inverts (debug : Bool) {n : Nat} (hn : 1 ≤ n) (hn30 : n < 2 ^ 30) (hRI : RingIndexExact n)
    {X Y : ℝ} (hg : GoodPoint X Y) (h : ℕ) (dx dy : ℝ) (hh : hashPlaneDxDy debug n X Y = some (h, dx, dy)) :
    sphCoo debug n h dx dy = unproj X Y ∧ 0 ≤ dx ∧ dx < 1 ∧ 0 ≤ dy ∧ dy < 1 := by
  obtain ⟨r, i, dl, dh, hr, hi, hP, l0, l1, g0, g1, x0, x1, y0, y1, hx, hy⟩ := hashPlane_point debug hn hn30 hg
  have hn0 : (0 : ℝ) < n := by exact_mod_cast hn
  unfold hashPlaneDxDy at hh
  rw [hP] at hh
  simp only [Option.map_some, Option.some.injEq, Prod.mk.injEq] at hh
  obtain ⟨rfl, rfl, rfl⟩ := hh
  refine ⟨?_, x0, x1, y0, y1⟩
  generalize (dldhToDxDy dl dh).1 = dx at *
  generalize (dldhToDxDy dl dh).2 = dy at *
  unfold sphCoo
  have c1 : (Num.le (Num.zero : ℝ) dx && Num.lt dx (Num.one : ℝ)) = true := by
    rw [r_le, r_lt, r_zero, r_one]; simp [x0, x1]
  have c2 : (Num.le (Num.zero : ℝ) dy && Num.lt dy (Num.one : ℝ)) = true := by
    rw [r_le, r_lt, r_zero, r_one]; simp [y0, y1]
  rw [c1, c2, center_eq debug hn hn30 hRI hr hi]
  simp only [Bool.not_true, Bool.false_eq_true, if_false, Option.bind_some, r_ofNat, r_one]
  have ey : (cyI n r : ℝ) / n + (dx + dy - 1) / n = Y := by field_simp; linarith
  rw [ey]
  rcases hx with h | h
  · have ex : (cxI n r i : ℝ) / n + (dx - dy) / n = X := by field_simp; linarith
    rw [ex]
    have : ensuresXIsPositive X = X := by
      unfold ensuresXIsPositive
      have : Num.lt X (Num.zero : ℝ) = false := by rw [r_lt, r_zero]; simpa using hg.1
      rw [this]; simp
    rw [this]
  · have ex : (cxI n r i : ℝ) / n + (dx - dy) / n = X - 8 := by field_simp; linarith
    rw [ex]
    have : ensuresXIsPositive (X - 8) = X := by
      unfold ensuresXIsPositive
      have : Num.lt (X - 8) (Num.zero : ℝ) = true := by rw [r_lt, r_zero]; simpa using hg.2.1
      rw [if_pos this, r_ofNat]; push_cast; ring
    rw [this]

theorem ensuresXIsPositive_idem {X : ℝ} (h : 0 ≤ ensuresXIsPositive X) :
    ensuresXIsPositive (ensuresXIsPositive X) = ensuresXIsPositive X := by
  generalize ensuresXIsPositive X = Z at h
  unfold ensuresXIsPositive
  have : Num.lt Z (Num.zero : ℝ) = false := by rw [r_lt, r_zero]; simpa using h
  rw [this]; simp

theorem hashPlane_ensures (debug : Bool) (n : Nat) {X : ℝ} (Y : ℝ) (h : 0 ≤ ensuresXIsPositive X) :
    hashPlane debug n X Y = hashPlane debug n (ensuresXIsPositive X) Y := by
  unfold hashPlane
  rw [ensuresXIsPositive_idem h]

/-- `ring_sph_coo_inverts` on the sphere: if `(lon, lat)` projects to `(X, Y)` and the projected point (with `x` brought
    back to `[0, 8)` as the code does) is a `GoodPoint`, then `sph_coo` applied to the result `(h, dx, dy)` of
    `hash_with_dxdy(lon, lat)` calls `unproj` on that very point.  (With `Proj.unproj_proj_real`, `unproj ∘ proj = id`,
    this gives back `(lon, lat)` on the domain of that theorem.) -/
theorem ring_sph_coo_inverts_sphere (debug : Bool) {n : Nat} (hn : 1 ≤ n) (hn30 : n < 2 ^ 30) (hRI : RingIndexExact n)
    (lon lat X Y : ℝ) (hp : proj lon lat = some (X, Y)) (hg : GoodPoint (ensuresXIsPositive X) Y)
    (h : ℕ) (dx dy : ℝ) (hh : hashWithDxDy debug n lon lat = some (h, dx, dy)) :
    sphCoo debug n h dx dy = unproj (ensuresXIsPositive X) Y := by
  rw [hashWithDxDy_eq, hp] at hh
  simp only [Option.bind_some] at hh
  unfold hashPlaneDxDy at hh
  rw [hashPlane_ensures debug n Y hg.1] at hh
  exact (ring_sph_coo_inverts debug hn hn30 hRI hg h dx dy hh).1

/-- items 4 and 5 on the sphere: if `(lon, lat)` projects to `(X, Y)` and the projected point (with `x` brought back to
    `[0, 8)` as the code does) is a `GoodPoint`, `ring::hash` returns a cell `h < 12 n²` whose closed diamond contains the
    projected point.  `RingReal4` shows which `(lon, lat)` project to good points. -/
theorem ring_hash_contains_sphere_partial (debug : Bool) {n : Nat} (hn : 1 ≤ n) (hn30 : n < 2 ^ 30) (hRI : RingIndexExact n)
    (lon lat X Y : ℝ) (hp : proj lon lat = some (X, Y)) (hg : GoodPoint (ensuresXIsPositive X) Y) :
    ∃ (h : ℕ) (cx cy : ℝ), Ring.hash debug n lon lat = some h ∧ h < 12 * n * n ∧
      centerOfProjectedCell (α := ℝ) debug n h = some (cx, cy) ∧
      (|ensuresXIsPositive X - cx| + |Y - cy| ≤ 1 / n ∨ |ensuresXIsPositive X - 8 - cx| + |Y - cy| ≤ 1 / n) := by
  obtain ⟨h, dl, dh, cx, cy, hP, hh, -, -, -, -, hc, hcont⟩ := ring_hash_contains_partial debug hn hn30 hRI hg
  refine ⟨h, cx, cy, ?_, hh, hc, hcont⟩
  unfold Ring.hash
  rw [hashWithDlDh_eq, hp]
  simp only [Option.bind_some]
  rw [hashPlane_ensures debug n Y hg.1, hP]; rfl

/-! ## finding F3: the north-cap seams

In exact arithmetic the statement of `ring_hash_contains` fails exactly on the slanted edges of the north Collignon
triangles, below the last ring (`y < 2 − 1/n`): a point of such an edge lies on the NW (west seam) or NE (east seam)
edge of the outermost cell of its ring, and `deal_with_1x1_box` gives the northern edges of a diamond to the northern
neighbour — here the *phantom* diamond in the gap between two triangles.  The index correction
`i_in_ring −= (off+1)/2 + off·q` then underflows for facet 0 (`hashPlane_seam_north_west`: `none` in the dev profile for
every `n ≥ 2`; the release profile wraps to `2^64 − 1` or to the last cell of the previous ring) and returns the last
cell of facet `q − 1` of the same ring for `q ≥ 1` (a cell that does not contain the point, `seam_witness_q1`).
On the south cap nothing of the kind happens over the reals (a diamond owns its southern edges): the closed south
triangles are part of `GoodPoint`.  (With doubles the rounding of `x` moves seam points to either side, which is
why the finding is observed on both caps.) -/

/-- a diamond left of the first cell of facet 0 makes the index correction underflow: panic in the dev profile -/
theorem hashTail_phantom0 {α : Type} [Num α] {n K I' : Nat} (dl dh : α) (hn : 1 ≤ n) (hK1 : 4 * n < K) (hK2 : K < 5 * n)
    (hI : I' < (K - 4 * n + 1) / 2) : hashTail true n dl dh K I' = none := by
  unfold hashTail
  rw [if_neg (by omega), sub64_of_le (by omega : 1 ≤ 5 * n)]
  simp only []
  rw [sub64_of_le (by omega : K ≤ 5 * n - 1)]
  simp only []
  rw [if_neg (by omega), if_pos (by omega), sub64_of_le (by omega : 1 ≤ n)]
  simp only []
  rw [sub64_of_le (by omega : 5 * n - 1 - K ≤ n - 1)]
  simp only []
  rw [shr_and_one]
  have e : n - 1 - (5 * n - 1 - K) = K - 4 * n := by omega
  rw [e]
  have : ¬ ((K - 4 * n + 1) / 2 + (K - 4 * n) * (I' / n) ≤ I') := by omega
  simp [sub64, this]

/-- **F3, exact failure set on the west seam of facet 0**: for every `n ≥ 2`, every point of the edge `x = y − 1` of the
    first north triangle below the last ring (`1 ≤ y < 2 − 1/n`; on the sphere: `lon = 0`, `asin(2/3) ≤ lat`) makes the
    dev profile panic -/
theorem hashPlane_seam_north_west {n : Nat} (hn2 : 2 ≤ n) (hn30 : n < 2 ^ 30) {Y : ℝ} (h1 : 1 ≤ Y)
    (h2 : (n : ℝ) * Y < 2 * n - 1) : hashPlane true n (Y - 1) Y = none := by
  have hn0 : (0 : ℝ) < n := by
    have : 0 < n := by omega
    exact_mod_cast this
  have hY2 : Y < 2 := by nlinarith
  have h0 : 0 ≤ 1 / 2 * (n : ℝ) * (Y - 1) := by
    have : 0 ≤ Y - 1 := by linarith
    positivity
  have ha1 := Nat.floor_le h0
  have ha2 := Nat.lt_floor_add_one (1 / 2 * (n : ℝ) * (Y - 1))
  generalize ⌊1 / 2 * (n : ℝ) * (Y - 1)⌋₊ = a at ha1 ha2
  have e : 1 / 2 * (n : ℝ) * (Y + 3) - ((a + 2 * n : ℕ) : ℝ) = 1 / 2 * n * (Y - 1) - a := by push_cast; ring
  rw [hashPlane_box true (by omega) hn30 (by linarith) (by linarith) (by linarith) (by linarith) a (a + 2 * n) ha1 ha2
    (by push_cast; linarith) (by push_cast; linarith), e]
  have hf0 : 0 ≤ 1 / 2 * (n : ℝ) * (Y - 1) - a := by linarith
  have hf1 : 1 / 2 * (n : ℝ) * (Y - 1) - a < 1 := by linarith
  have ha : 2 * a + 1 < n := by
    have : 2 * (a : ℝ) + 1 < n := by nlinarith
    exact_mod_cast this
  have ha' : 1 - (1 / 2 * (n : ℝ) * (Y - 1) - a) ≤ 1 / 2 * (n : ℝ) * (Y - 1) - a → 2 * a + 2 < n := by
    intro hc
    have : 2 * (a : ℝ) + 2 < n := by nlinarith
    exact_mod_cast this
  generalize 1 / 2 * (n : ℝ) * (Y - 1) - a = f at *
  unfold dealWith1x1Box
  simp only [r_le, r_ge, r_one, le_refl, decide_true, if_true]
  by_cases c2 : 1 - f ≤ f
  · have := ha' c2
    simp only [c2, decide_true, if_true]
    exact hashTail_phantom0 _ _ (by omega) (by omega) (by omega) (by
      have : (1 : ℕ) >>> 1 = 0 := rfl
      rw [this]; omega)
  · simp only [c2, decide_false, Bool.false_eq_true, if_false]
    exact hashTail_phantom0 _ _ (by omega) (by omega) (by omega) (by
      have : (0 : ℕ) >>> 1 = 0 := rfl
      rw [this]; omega)

/-- exact witness at `n = 2`: the plane point `(1/4, 5/4)` (west seam of facet 0: `lon = 0`) panics in the dev profile -/
theorem seam_witness_debug : hashPlane true 2 ((1 : ℝ) / 4) (5 / 4) = none := by
  have := hashPlane_seam_north_west (n := 2) (Y := 5 / 4) (by norm_num) (by norm_num) (by norm_num) (by norm_num)
  rwa [show (5 : ℝ) / 4 - 1 = 1 / 4 by norm_num] at this

/-- … and in the release profile the same point gets the cell number `2^64 − 1` (not `< 12·n² = 48`) -/
theorem seam_witness_release : hashPlane false 2 ((1 : ℝ) / 4) (5 / 4) = some (2 ^ 64 - 1, 1 / 4, 1 / 4) := by
  rw [hashPlane_box false (n := 2) (by norm_num) (by norm_num) (by norm_num) (by norm_num) (by norm_num) (by norm_num) 0 4
    (by norm_num) (by norm_num) (by norm_num) (by norm_num)]
  norm_num [dealWith1x1Box, r_le, r_ge, r_one, hashTail, sub64, tri4, Nat.shiftRight_eq_div_pow]

/-- exact witness at `n = 2`, facet 1: the plane point `(9/4, 5/4)` (west seam of facet 1: `lon = π/2`) is given to
    cell 0 in both profiles, whose centre is `(1, 3/2)`: the point is not in the (closed) cell -/
theorem seam_witness_q1 (debug : Bool) :
    hashPlane debug 2 ((9 : ℝ) / 4) (5 / 4) = some (0, 1 / 4, 1 / 4) ∧
    centerOfProjectedCell (α := ℝ) debug 2 0 = some (1, 3 / 2) ∧
    ¬ (|(9 : ℝ) / 4 - 1| + |(5 : ℝ) / 4 - 3 / 2| ≤ 1 / 2) ∧ ¬ (|(9 : ℝ) / 4 - 8 - 1| + |(5 : ℝ) / 4 - 3 / 2| ≤ 1 / 2) := by
  refine ⟨?_, ?_, ?_, ?_⟩
  · rw [hashPlane_box debug (n := 2) (by norm_num) (by norm_num) (by norm_num) (by norm_num) (by norm_num) (by norm_num) 2 4
      (by norm_num) (by norm_num) (by norm_num) (by norm_num)]
    norm_num [dealWith1x1Box, r_le, r_ge, r_one, hashTail, sub64, tri4, Nat.shiftRight_eq_div_pow]
  · have hRI : RingIndexExact 2 := by unfold RingIndexExact; decide +kernel
    have := center_eq debug (n := 2) (r := 0) (i := 0) (by norm_num) (by norm_num) hRI (by norm_num) (by decide)
    have e1 : ringStart 2 0 + 0 = 0 := by decide
    have e2 : cxI 2 0 0 = 2 := by decide
    have e3 : cyI 2 0 = 3 := by decide
    rw [e1, e2, e3] at this
    rw [this]; norm_num
  · rw [abs_of_pos (by norm_num), abs_of_neg (by norm_num)]; norm_num
  · rw [abs_of_neg (by norm_num), abs_of_neg (by norm_num)]; norm_num

/-- exact witness at `n = 2`, east seam of facet 0 (reached from negative longitudes): the plane point `(7/4, 5/4)` is
    given to cell 0 (centre `(1, 3/2)`), which does not contain it -/
theorem seam_witness_east (debug : Bool) :
    hashPlane debug 2 ((7 : ℝ) / 4) (5 / 4) = some (0, 3 / 4, 1 / 4) ∧
    ¬ (|(7 : ℝ) / 4 - 1| + |(5 : ℝ) / 4 - 3 / 2| ≤ 1 / 2) := by
  constructor
  · rw [hashPlane_box debug (n := 2) (by norm_num) (by norm_num) (by norm_num) (by norm_num) (by norm_num) (by norm_num) 1 4
      (by norm_num) (by norm_num) (by norm_num) (by norm_num)]
    norm_num [dealWith1x1Box, r_le, r_ge, r_one, hashTail, sub64, tri4, Nat.shiftRight_eq_div_pow]
  · rw [abs_of_pos (by norm_num), abs_of_neg (by norm_num)]; norm_num

/-- the base-cell corner `lon = 0`, `lat = asin(2/3)` projects onto the plane point `(0, 1)` -/
theorem proj_corner : proj (α := ℝ) 0 (Real.arcsin (2 / 3)) = some (0, 1) := by
  have hpi := Real.pi_pos
  have h0 : 0 ≤ Real.arcsin (2 / 3) := Real.arcsin_nonneg.mpr (by norm_num)
  have hle : Real.arcsin (2 / 3) ≤ Real.pi / 2 := Real.arcsin_le_pi_div_two _
  have hchk : checkLat (α := ℝ) (Real.arcsin (2 / 3)) = true := by
    unfold checkLat; rw [r_le, r_le, r_hpi]; simp; constructor <;> linarith
  obtain ⟨k, hk, hdec, hm1, hp1⟩ := pm1OffsetDecompose_real 0 (le_refl _) (by norm_num)
  have hk0 : k = 0 := by
    push_cast at hm1 hp1
    have : (k : ℝ) < 1 := by linarith
    have : k < 1 := by exact_mod_cast this
    omega
  subst hk0
  unfold proj
  have habs_lat : Num.abs (Real.arcsin (2 / 3)) = Real.arcsin (2 / 3) := by rw [r_abs, abs_of_nonneg h0]
  have hs_lat : Num.signBit (Real.arcsin (2 / 3)) = false := by rw [r_signBit]; simpa using h0
  have habs0 : Num.abs (0 : ℝ) = 0 := by rw [r_abs, abs_zero]
  have hs0 : Num.signBit (0 : ℝ) = false := by rw [r_signBit]; simp
  have hreg : isInEquatorialRegion (α := ℝ) (Real.arcsin (2 / 3)) = true := by
    unfold isInEquatorialRegion; rw [r_le, r_transitionLat]; simp
  simp only [hchk, Bool.not_true, Bool.false_eq_true, if_false, habs_lat, hs_lat, habs0, hs0, r_fourOverPi, zero_mul, hdec,
    hreg, if_true]
  unfold applyOffsetAndSigns projCea
  simp only [r_orSign_false, r_ofNat, r_sin, r_ootz]
  rw [Real.sin_arcsin (by norm_num) (by norm_num)]
  norm_num

/-- **F3 on the sphere, exact witness for every `n ≥ 2`**: `ring::hash(nside, 0, asin(2/3))` panics in the dev profile
    (the point is the corner shared by base cells 0, 3, 4: it is in the *equatorial* region for the code's test
    `|lat| ≤ TRANSITION_LATITUDE`, and on the west seam of facet 0) -/
theorem ring_hash_corner_panics {n : Nat} (hn2 : 2 ≤ n) (hn30 : n < 2 ^ 30) :
    Ring.hash true n (0 : ℝ) (Real.arcsin (2 / 3)) = none := by
  have hn0 : (2 : ℝ) ≤ n := by exact_mod_cast hn2
  have := hashPlane_seam_north_west (n := n) (Y := 1) hn2 hn30 (le_refl _) (by linarith)
  rw [show (1 : ℝ) - 1 = 0 by norm_num] at this
  unfold Ring.hash
  rw [hashWithDlDh_eq, proj_corner]
  simp only [Option.bind_some, this, Option.map_none]

end Hpx.RingReal
