/-
RING scheme (C11), finding F3 characterised exactly, part 3: the south-cap seams and the south pole (correct), the
seams on the sphere, the exact failure set `F3Set` of `ring::hash` and the full-sphere statement
`ring_hash_sphere_total`.
-/
import HpxVerif.Lemmas.RingSeams2

namespace Hpx.RingSeams
open Hpx Hpx.Ring Hpx.Proj Hpx.RingReal Real

/-! ## the south cap: seams and pole are harmless -/

/-- **south-cap seams**: on the two slanted edges of the south triangle `q` (`|x − (2q+1)| = 2 + y`, `−2 ≤ y < −1`, the
    south pole included) `hash_with_dldh` returns, in both profiles, a cell whose closed diamond contains the point
    (a diamond owns its two southern edges, and the seams are southern edges of cells of the triangle) -/
theorem ring_hash_seam_south (debug : Bool) {n q : ℕ} (hn : 1 ≤ n) (hN : n < 2 ^ 30) (hq : q < 4) {X Y : ℝ}
    (h1 : -2 ≤ Y) (h2 : Y < -1) (hX : X = 2 * q + 1 - (2 + Y) ∨ X = 2 * q + 1 + (2 + Y)) :
    ∃ (h : ℕ) (dl dh : ℝ), hashPlane debug n X Y = some (h, dl, dh) ∧ 0 ≤ dl ∧ dl < 1 ∧ 0 ≤ dh ∧ dh < 1 ∧
      Contains debug n h X Y := by
  have hq0 : (0 : ℝ) ≤ q := Nat.cast_nonneg q
  have hqr : (q : ℝ) ≤ 3 := by
    have : q ≤ 3 := by omega
    exact_mod_cast this
  have hg : GoodPoint X Y := by
    refine ⟨by rcases hX with rfl | rfl <;> linarith, by rcases hX with rfl | rfl <;> linarith,
      Or.inr (Or.inr ⟨h1, h2, q, hq, ?_⟩)⟩
    rcases hX with rfl | rfl
    · rw [show 2 * (q : ℝ) + 1 - (2 + Y) - (2 * q + 1) = -(2 + Y) by ring, abs_neg, abs_of_nonneg (by linarith)]
    · rw [show 2 * (q : ℝ) + 1 + (2 + Y) - (2 * q + 1) = 2 + Y by ring, abs_of_nonneg (by linarith)]
  obtain ⟨h, dl, dh, cx, cy, hP, hlt, l0, l1, g0, g1, hc, hcont⟩ := ring_hash_contains_partial_uncond debug hn hN hg
  exact ⟨h, dl, dh, hP, l0, l1, g0, g1, hlt, cx, cy, hc, hcont⟩

/-- the last ring, for every `n ≥ 1` -/
theorem ringLast {n : ℕ} (hn : 1 ≤ n) :
    perFacet n (4 * n - 2) = 1 ∧ cxOff n (4 * n - 2) = n ∧ ringStart n (4 * n - 2) = 12 * n * n - 4 ∧
      cyI n (4 * n - 2) = -(2 * (n : ℤ) - 1) := by
  have e1 : tri4 1 = 4 := by decide
  refine ⟨?_, ?_, ?_, by unfold cyI; omega⟩
  · unfold perFacet; rw [if_neg (by omega)]; split <;> omega
  · unfold cxOff; rw [if_neg (by omega)]; split <;> omega
  · unfold ringStart; rw [if_neg (by omega)]
    by_cases h1 : n = 1
    · subst h1; decide
    · rw [if_neg (by omega), show 4 * n - 1 - (4 * n - 2) = 1 by omega, e1]

/-- **the south pole** of facet `q` (plane point `(2q+1, −2)`): `hash_with_dldh` returns, in both profiles, cell
    `12n² − 4 + q` of the last ring — the right one (the pole is its south vertex), with regular offsets in `[0,1)²`
    (unlike the north pole, `ring_hash_pole`, which takes a special exit with offsets `(1,1)`) -/
theorem ring_hash_south_pole (debug : Bool) {n q : ℕ} (hn : 1 ≤ n) (hN : n < 2 ^ 30) (hq : q < 4) :
    ∃ dl dh : ℝ, hashPlane debug n ((2 * q + 1 : ℕ) : ℝ) (-2) = some (12 * n * n - 4 + q, dl, dh) ∧
      0 ≤ dl ∧ dl < 1 ∧ 0 ≤ dh ∧ dh < 1 ∧ dldhToDxDy dl dh = (0, 0) ∧
      Contains debug n (12 * n * n - 4 + q) ((2 * q + 1 : ℕ) : ℝ) (-2) := by
  have hn30 := hN
  have hn0 : (1 : ℝ) ≤ n := by exact_mod_cast hn
  have hq0 : (0 : ℝ) ≤ q := Nat.cast_nonneg q
  have hqr : (q : ℝ) ≤ 3 := by
    have : q ≤ 3 := by omega
    exact_mod_cast this
  have hg : GoodPoint ((2 * q + 1 : ℕ) : ℝ) (-2) := by
    refine ⟨by positivity, by push_cast; linarith, Or.inr (Or.inr ⟨le_refl _, by norm_num, q, hq, ?_⟩)⟩
    push_cast; norm_num
  obtain ⟨r, i, dl, dh, hr, hi, hP, l0, l1, g0, g1, x0, x1, y0, y1, hx, hy⟩ := hashPlane_point debug hn hn30 hg
  obtain ⟨hp, hc, hs, hcy⟩ := ringLast hn
  -- the ring: `r = 4n − 2` and both offsets vanish
  have hrr : (r : ℝ) ≤ 4 * n - 2 := by
    have : r + 2 ≤ 4 * n := by omega
    have : ((r + 2 : ℕ) : ℝ) ≤ ((4 * n : ℕ) : ℝ) := by exact_mod_cast this
    push_cast at this; linarith
  have hcyr : (cyI n r : ℝ) = 2 * n - 1 - r := by unfold cyI; push_cast; ring
  rw [hcyr] at hy
  have hdx : (dldhToDxDy dl dh).1 = 0 := by linarith
  have hdy : (dldhToDxDy dl dh).2 = 0 := by linarith
  have hr' : r = 4 * n - 2 := by
    have : (r : ℝ) = ((4 * n - 2 : ℕ) : ℝ) := by
      rw [Nat.cast_sub (by omega)]; push_cast; linarith
    exact_mod_cast this
  subst hr'
  -- the index in the ring
  rw [hdx, hdy] at hx
  have hcxq : cxI n (4 * n - 2) q = 2 * n * q + n := by
    have := cxI_facet (n := n) (r := 4 * n - 2) (q := q) (j := 0) (by omega)
    rw [hp] at this
    simp only [Nat.mul_one, Nat.add_zero, Nat.mul_zero] at this
    rw [this, hc]
  have hcxi : cxI n (4 * n - 2) i = cxI n (4 * n - 2) q := by
    rcases hx with h | h
    · have : ((n * (2 * q + 1) : ℕ) : ℝ) = ((cxI n (4 * n - 2) i : ℕ) : ℝ) := by push_cast; push_cast at h; linarith
      have : n * (2 * q + 1) = cxI n (4 * n - 2) i := by exact_mod_cast this
      rw [hcxq, ← this]; ring
    · exfalso
      have : (0 : ℝ) ≤ cxI n (4 * n - 2) i := Nat.cast_nonneg _
      push_cast at h; nlinarith
  have hiq : i = q := by
    rcases Nat.lt_trichotomy i q with h | h | h
    · have := cxI_strictMono (n := n) (r := 4 * n - 2) hn hr h; omega
    · exact h
    · have := cxI_strictMono (n := n) (r := 4 * n - 2) hn hr h; omega
  subst hiq
  rw [hs] at hP
  refine ⟨dl, dh, hP, l0, l1, g0, g1, Prod.ext hdx hdy, ?_⟩
  have := contains_near debug (n := n) (r := 4 * n - 2) (i := i) hn hN hr hi (X := ((2 * i + 1 : ℕ) : ℝ)) (Y := -2) (by
    rw [hcxq, hcy]; push_cast
    have e1 : (n : ℝ) * (2 * i + 1) - (2 * n * i + n) = 0 := by ring
    have e2 : (n : ℝ) * -2 - -(2 * n - 1) = -1 := by ring
    rw [e1, e2]; norm_num)
  rwa [hs] at this

/-! ## the seams on the sphere -/

/-- the Collignon ordinate factor `√6·cos(lat/2 + π/4)` is exactly 1 at the transition latitude: the two branches of
    `proj` agree there -/
theorem collignon_at_transition : Real.sqrt 6 * Real.cos (1 / 2 * Real.arcsin (2 / 3) + π / 4) = 1 := by
  have hasin0 : 0 ≤ Real.arcsin (2 / 3) := Real.arcsin_nonneg.mpr (by norm_num)
  have hasin1 : Real.arcsin (2 / 3) ≤ π / 2 := Real.arcsin_le_pi_div_two _
  have hc : 0 ≤ Real.cos (1 / 2 * Real.arcsin (2 / 3) + π / 4) :=
    Real.cos_nonneg_of_neg_pi_div_two_le_of_le (by linarith [Real.pi_pos]) (by linarith)
  have h6 : 0 ≤ Real.sqrt 6 := Real.sqrt_nonneg 6
  have hsq : (Real.sqrt 6 * Real.cos (1 / 2 * Real.arcsin (2 / 3) + π / 4)) ^ 2 = 1 := by
    rw [mul_pow, Real.sq_sqrt (by norm_num : (0 : ℝ) ≤ 6)]
    have hc2 : Real.cos (1 / 2 * Real.arcsin (2 / 3) + π / 4) ^ 2
        = 1 / 2 + Real.cos (2 * (1 / 2 * Real.arcsin (2 / 3) + π / 4)) / 2 := Real.cos_sq _
    rw [hc2, show 2 * (1 / 2 * Real.arcsin (2 / 3) + π / 4) = Real.arcsin (2 / 3) + π / 2 by ring,
      Real.cos_add_pi_div_two, Real.sin_arcsin (by norm_num) (by norm_num)]
    norm_num
  have h0 := mul_nonneg h6 hc
  nlinarith

/-- on the north cap (`asin(2/3) ≤ lat ≤ π/2`) the factor is in `[0, 1]`, positive below the pole -/
theorem collignon_range {lat : ℝ} (h1 : Real.arcsin (2 / 3) ≤ lat) (h2 : lat ≤ π / 2) :
    0 ≤ Real.sqrt 6 * Real.cos (1 / 2 * lat + π / 4) ∧ Real.sqrt 6 * Real.cos (1 / 2 * lat + π / 4) ≤ 1 ∧
      (lat < π / 2 → 0 < Real.sqrt 6 * Real.cos (1 / 2 * lat + π / 4)) := by
  have hasin0 : 0 ≤ Real.arcsin (2 / 3) := Real.arcsin_nonneg.mpr (by norm_num)
  have h6 : 0 < Real.sqrt 6 := Real.sqrt_pos.mpr (by norm_num)
  refine ⟨?_, ?_, ?_⟩
  · exact mul_nonneg (le_of_lt h6)
      (Real.cos_nonneg_of_neg_pi_div_two_le_of_le (by linarith [Real.pi_pos]) (by linarith))
  · rcases lt_or_eq_of_le h1 with h | h
    · exact le_of_lt (collignon_y_lt_one lat h h2).2
    · rw [← h, collignon_at_transition]
  · intro hlt
    exact mul_pos h6 (Real.cos_pos_of_mem_Ioo ⟨by linarith [Real.pi_pos], by linarith⟩)

/-- **a north-cap seam of the sphere** (`lon = k·π/2`, `asin(2/3) ≤ lat ≤ π/2`) projects onto the WEST edge of the
    north triangle `k`: `x = 2k + (y − 1)` with `y = 2 − √6·cos(lat/2 + π/4)` -/
theorem proj_west_seam {k : ℕ} (hk : k < 4) {lat : ℝ} (h1 : Real.arcsin (2 / 3) ≤ lat) (h2 : lat ≤ π / 2) :
    proj (α := ℝ) (k * (π / 2)) lat
      = some (2 * k + ((2 - Real.sqrt 6 * Real.cos (1 / 2 * lat + π / 4)) - 1),
              2 - Real.sqrt 6 * Real.cos (1 / 2 * lat + π / 4)) := by
  have hpi := Real.pi_pos
  have hasin0 : 0 ≤ Real.arcsin (2 / 3) := Real.arcsin_nonneg.mpr (by norm_num)
  have hlat0 : 0 ≤ lat := by linarith
  have hk0 : (0 : ℝ) ≤ k := Nat.cast_nonneg k
  have hkr : (k : ℝ) ≤ 3 := by
    have : k ≤ 3 := by omega
    exact_mod_cast this
  obtain ⟨k', hk', hm1, hp1, hproj⟩ := proj_value (k * (π / 2)) lat (by positivity) (by nlinarith) (by linarith) h2
  have e4 : (k : ℝ) * (π / 2) * (4 / π) = 2 * k := by field_simp; ring
  rw [e4] at hm1 hp1 hproj
  have hkk : k' = k := by
    push_cast at hm1 hp1
    have a1 : (k' : ℝ) ≤ k := by linarith
    have a2 : (k : ℝ) < k' + 1 := by linarith
    have a1' : k' ≤ k := by exact_mod_cast a1
    have a2' : k < k' + 1 := by exact_mod_cast a2
    omega
  subst hkk
  have hneg : decide (lat < 0) = false := by simpa using hlat0
  rw [hproj, abs_of_nonneg hlat0, hneg]
  simp only [r_orSign_false]
  by_cases heq : lat ≤ Real.arcsin (2 / 3)
  · have he : lat = Real.arcsin (2 / 3) := le_antisymm heq h1
    rw [if_pos heq, he, collignon_at_transition, Real.sin_arcsin (by norm_num) (by norm_num)]
    norm_num
  · rw [if_neg heq]
    congr 2
    push_cast; ring

/-- `ring::hash` is the plane function applied to the projection -/
theorem hash_of_proj (debug : Bool) (n : ℕ) {lon lat X Y : ℝ} (hp : proj (α := ℝ) lon lat = some (X, Y)) :
    Ring.hash debug n lon lat = (hashPlane debug n X Y).map (·.1) := by
  unfold Ring.hash
  rw [hashWithDlDh_eq, hp]; rfl

/-- **the north pole** (`lat = π/2`, any `0 ≤ lon < 2π`): `ring::hash` returns, in both profiles, the cell of the first
    ring of the facet of `lon` — a correct answer (the pole is the north vertex of that cell) -/
theorem ring_hash_north_pole_sphere (debug : Bool) {n : ℕ} (hn : 1 ≤ n) (hN : n < 2 ^ 30) (lon : ℝ) (hlon0 : 0 ≤ lon)
    (hlon1 : lon < 2 * π) :
    ∃ (X Y : ℝ) (h : ℕ), proj (α := ℝ) lon (π / 2) = some (X, Y) ∧ Ring.hash debug n lon (π / 2) = some h ∧ h < 4 ∧
      Contains debug n h X Y := by
  have hpi := Real.pi_pos
  obtain ⟨k, hk, -, -, hproj⟩ := proj_value lon (π / 2) hlon0 hlon1 (by linarith) (le_refl _)
  have habs : |π / 2| = π / 2 := abs_of_nonneg (by linarith)
  have hnot : ¬ (π / 2 ≤ Real.arcsin (2 / 3)) := by
    have : Real.arcsin (2 / 3) < π / 2 := Real.arcsin_lt_pi_div_two.mpr (by norm_num)
    linarith
  have hneg : decide (π / 2 < 0) = false := by simp; linarith
  have hcos : Real.cos (1 / 2 * (π / 2) + π / 4) = 0 := by
    rw [show 1 / 2 * (π / 2) + π / 4 = π / 2 by ring, Real.cos_pi_div_two]
  rw [habs, if_neg hnot, hneg, hcos] at hproj
  simp only [r_orSign_false, mul_zero, zero_add, sub_zero] at hproj
  have hP := ring_hash_pole debug hn hN hk
  refine ⟨_, _, k, hproj, by rw [hash_of_proj debug n hproj, hP]; rfl, hk, ?_⟩
  have hn0 : (1 : ℝ) ≤ n := by exact_mod_cast hn
  exact contains_top debug hn hN hk (Y := 2) (by linarith) (le_refl _) (Or.inl (by push_cast; ring))

/-! ## the exact failure set of `ring::hash` and the full-sphere statement -/

/-- **the failure set of `ring::hash(nside = n, lon, lat)`** (finding F3), for `0 ≤ lon < 2π`: the four meridians
    `lon = k·π/2` of the north cap, from the transition latitude (included) up to — but excluding — the last ring
    (`n·√6·cos(lat/2 + π/4) > 1`, i.e. `y < 2 − 1/n` in the projection plane).  It is empty for `n = 1`. -/
def F3Set (n : ℕ) (lon lat : ℝ) : Prop :=
  (∃ k : ℕ, k < 4 ∧ lon = k * (π / 2)) ∧ Real.arcsin (2 / 3) ≤ lat ∧ lat ≤ π / 2 ∧
    1 < (n : ℝ) * (Real.sqrt 6 * Real.cos (1 / 2 * lat + π / 4))

/-- `F3Set` is not empty for `n ≥ 2`: it contains the base-cell corner `(0, asin(2/3))` … -/
example (n : ℕ) (hn : 2 ≤ n) : F3Set n 0 (Real.arcsin (2 / 3)) := by
  refine ⟨⟨0, by norm_num, by simp⟩, le_refl _, Real.arcsin_le_pi_div_two _, ?_⟩
  rw [collignon_at_transition]
  have : (2 : ℝ) ≤ n := by exact_mod_cast hn
  linarith

/-- … and it is empty for `n = 1` -/
theorem f3Set_one (lon lat : ℝ) : ¬ F3Set 1 lon lat := by
  rintro ⟨-, h1, h2, h3⟩
  have := (collignon_range h1 h2).2.1
  push_cast at h3; linarith

/-- the correct-answer statement: the conclusion of `ring_hash_sphere_partial` -/
def HashCorrect (debug : Bool) (n : ℕ) (lon lat : ℝ) : Prop :=
  ∃ (X Y : ℝ) (h : ℕ) (cx cy : ℝ), proj (α := ℝ) lon lat = some (X, Y) ∧ Ring.hash debug n lon lat = some h ∧
    h < 12 * n * n ∧ centerOfProjectedCell (α := ℝ) debug n h = some (cx, cy) ∧
    (|X - cx| + |Y - cy| ≤ 1 / n ∨ |X - 8 - cx| + |Y - cy| ≤ 1 / n)

/-- the wrong-answer statement: a panic (`none`), or a number that is not a cell, or a cell that misses the point -/
def HashWrong (debug : Bool) (n : ℕ) (lon lat : ℝ) : Prop :=
  Ring.hash debug n lon lat = none ∨
  ∃ (X Y : ℝ) (h : ℕ), proj (α := ℝ) lon lat = some (X, Y) ∧ Ring.hash debug n lon lat = some h ∧ Misses debug n h X Y

theorem hashWrong_not_correct {debug : Bool} {n : ℕ} {lon lat : ℝ} (hw : HashWrong debug n lon lat) :
    ¬ HashCorrect debug n lon lat := by
  rintro ⟨X, Y, h, cx, cy, hp, hh, hlt, hc, hcont⟩
  rcases hw with h0 | ⟨X', Y', h', hp', hh', hm⟩
  · rw [h0] at hh; cases hh
  · rw [hp] at hp'; rw [hh] at hh'
    simp only [Option.some.injEq, Prod.mk.injEq] at hp' hh'
    obtain ⟨rfl, rfl⟩ := hp'
    subst hh'
    exact misses_not_contains hm ⟨hlt, cx, cy, hc, hcont⟩

/-- **the failure set is exact** (not an over-approximation): on every point of `F3Set`, for every `1 ≤ n < 2^30`,
    `ring::hash` gives a wrong answer in BOTH profiles; on the meridian `lon = 0` the dev profile panics (and the release
    profile returns `2^64 − 1` or a far cell), on the three others both profiles silently return a cell of the
    neighbouring base cell that does not contain the point -/
theorem ring_hash_f3_wrong {n : ℕ} (hn : 1 ≤ n) (hN : n < 2 ^ 30) {lon lat : ℝ} (hf : F3Set n lon lat) :
    (lon = 0 → Ring.hash true n lon lat = none) ∧ (lon ≠ 0 → ∃ h, Ring.hash true n lon lat = some h ∧ h < 12 * n * n) ∧
    ∀ debug, HashWrong debug n lon lat := by
  obtain ⟨⟨k, hk, rfl⟩, h1, h2, h3⟩ := hf
  obtain ⟨c0, c1, -⟩ := collignon_range h1 h2
  have hp := proj_west_seam hk h1 h2
  have hn0 : (1 : ℝ) ≤ n := by exact_mod_cast hn
  set y' := Real.sqrt 6 * Real.cos (1 / 2 * lat + π / 4) with hy'
  have hY1 : (1 : ℝ) ≤ 2 - y' := by linarith
  have hY2 : 2 - y' < 2 := by nlinarith
  have hlow : (n : ℝ) * (2 - y') < 2 * n - 1 := by nlinarith
  obtain ⟨⟨-, w0, wq⟩, -⟩ := ring_hash_seam_north_spec hn hN hk hY1 hY2
  have hpi := Real.pi_pos
  by_cases hk0 : k = 0
  · subst hk0
    obtain ⟨hd, h, dl, dh, hr, hm⟩ := w0 hlow rfl
    refine ⟨fun _ => by rw [hash_of_proj true n hp, hd]; rfl, fun hne => absurd (by simp) hne, fun debug => ?_⟩
    cases debug
    · exact Or.inr ⟨_, _, h, hp, by rw [hash_of_proj false n hp, hr]; rfl, hm⟩
    · exact Or.inl (by rw [hash_of_proj true n hp, hd]; rfl)
  · have hk1 : 1 ≤ k := by omega
    refine ⟨fun h0 => ?_, fun _ => ?_, fun debug => ?_⟩
    · exfalso
      have : (k : ℝ) = 0 := by
        rcases mul_eq_zero.mp h0 with h | h
        · exact h
        · linarith
      exact hk0 (by exact_mod_cast this)
    · obtain ⟨h, dl, dh, hr, hlt, -⟩ := wq hlow hk1 true
      exact ⟨h, by rw [hash_of_proj true n hp, hr]; rfl, hlt⟩
    · obtain ⟨h, dl, dh, hr, -, hm⟩ := wq hlow hk1 debug
      exact Or.inr ⟨_, _, h, hp, by rw [hash_of_proj debug n hp, hr]; rfl, hm⟩

/-- **`ring_hash_sphere_total`** — `ring::hash` on the WHOLE sphere, for every `1 ≤ nside = n < 2^30` (power of two or
    not), every `0 ≤ lon < 2π`, every latitude, in both profiles: EITHER the point is in the explicit failure set
    `F3Set n lon lat` (where the answer is wrong, `ring_hash_f3_wrong`), OR `ring::hash` returns a cell `h < 12 n²` whose
    closed diamond contains the projected point (the conclusion of `ring_hash_sphere_partial`).  With respect to
    `ring_hash_sphere_partial` this adds: the north pole, and the part of the four seams that lies in the last ring. -/
theorem ring_hash_sphere_total (debug : Bool) {n : ℕ} (hn : 1 ≤ n) (hN : n < 2 ^ 30)
    (lon lat : ℝ) (hlon0 : 0 ≤ lon) (hlon1 : lon < 2 * π) (hlat0 : -(π / 2) ≤ lat) (hlat1 : lat ≤ π / 2) :
    F3Set n lon lat ∨ HashCorrect debug n lon lat := by
  have hpi := Real.pi_pos
  by_cases hseam : lat < Real.arcsin (2 / 3) ∨ (lat < π / 2 ∧ ∀ k : ℕ, lon ≠ k * (π / 2))
  · exact Or.inr (ring_hash_sphere_partial_uncond debug hn hN lon lat hlon0 hlon1 hlat0 hlat1 hseam)
  · have h1 : Real.arcsin (2 / 3) ≤ lat := by
      by_contra hc; exact hseam (Or.inl (lt_of_not_ge hc))
    by_cases hpole : lat = π / 2
    · subst hpole
      obtain ⟨X, Y, h, hp, hh, hh4, hlt, cx, cy, hc, hcont⟩ := ring_hash_north_pole_sphere debug hn hN lon hlon0 hlon1
      exact Or.inr ⟨X, Y, h, cx, cy, hp, hh, hlt, hc, hcont⟩
    · have hlt : lat < π / 2 := lt_of_le_of_ne hlat1 hpole
      have hex : ∃ k : ℕ, lon = k * (π / 2) := by
        by_contra hc
        exact hseam (Or.inr ⟨hlt, fun k hk => hc ⟨k, hk⟩⟩)
      obtain ⟨k, rfl⟩ := hex
      have hk : k < 4 := by
        have : (k : ℝ) < 4 := by nlinarith
        exact_mod_cast this
      by_cases h3 : 1 < (n : ℝ) * (Real.sqrt 6 * Real.cos (1 / 2 * lat + π / 4))
      · exact Or.inl ⟨⟨k, hk, rfl⟩, h1, hlat1, h3⟩
      · right
        obtain ⟨c0, c1, c2⟩ := collignon_range h1 hlat1
        have hp := proj_west_seam hk h1 hlat1
        have hn0 : (1 : ℝ) ≤ n := by exact_mod_cast hn
        have hY1 : (1 : ℝ) ≤ 2 - Real.sqrt 6 * Real.cos (1 / 2 * lat + π / 4) := by linarith
        have hY2 : 2 - Real.sqrt 6 * Real.cos (1 / 2 * lat + π / 4) < 2 := by linarith [c2 hlt]
        obtain ⟨⟨wtop, -, -⟩, -⟩ := ring_hash_seam_north_spec hn hN hk hY1 hY2
        obtain ⟨hr, hlt', cx, cy, hc, hcont⟩ := wtop (by rw [not_lt] at h3; nlinarith) debug
        exact ⟨_, _, k, cx, cy, hp, by rw [hash_of_proj debug n hp, hr]; rfl, hlt', hc, hcont⟩

/-- the dichotomy is exclusive: **`ring::hash` is correct at `(lon, lat)` if and only if the point is not in `F3Set`** -/
theorem ring_hash_correct_iff (debug : Bool) {n : ℕ} (hn : 1 ≤ n) (hN : n < 2 ^ 30)
    (lon lat : ℝ) (hlon0 : 0 ≤ lon) (hlon1 : lon < 2 * π) (hlat0 : -(π / 2) ≤ lat) (hlat1 : lat ≤ π / 2) :
    HashCorrect debug n lon lat ↔ ¬ F3Set n lon lat := by
  constructor
  · intro hc hf
    exact hashWrong_not_correct ((ring_hash_f3_wrong hn hN hf).2.2 debug) hc
  · intro hnf
    rcases ring_hash_sphere_total debug hn hN lon lat hlon0 hlon1 hlat0 hlat1 with h | h
    · exact absurd h hnf
    · exact h

/-- for `nside = 1` `ring::hash` is correct on the whole sphere (`0 ≤ lon < 2π`) -/
theorem ring_hash_sphere_nside_one (debug : Bool) (lon lat : ℝ) (hlon0 : 0 ≤ lon) (hlon1 : lon < 2 * π)
    (hlat0 : -(π / 2) ≤ lat) (hlat1 : lat ≤ π / 2) : HashCorrect debug 1 lon lat :=
  (ring_hash_correct_iff debug (n := 1) (by norm_num) (by norm_num) lon lat hlon0 hlon1 hlat0 hlat1).mpr
    (f3Set_one lon lat)

/-- instance: the base-cell corner `(lon, lat) = (π/2, asin(2/3))` is in the failure set for every `2 ≤ n < 2^30`; there
    `ring::hash` does not panic, it silently returns a cell that does not contain the point, in both profiles -/
example (n : ℕ) (hn : 2 ≤ n) (hN : n < 2 ^ 30) (debug : Bool) :
    (∃ h, Ring.hash true n (π / 2) (Real.arcsin (2 / 3)) = some h ∧ h < 12 * n * n) ∧
      HashWrong debug n (π / 2) (Real.arcsin (2 / 3)) ∧ ¬ HashCorrect debug n (π / 2) (Real.arcsin (2 / 3)) := by
  have hpi := Real.pi_pos
  have hf : F3Set n (π / 2) (Real.arcsin (2 / 3)) := by
    refine ⟨⟨1, by norm_num, by simp⟩, le_refl _, Real.arcsin_le_pi_div_two _, ?_⟩
    rw [collignon_at_transition]
    have : (2 : ℝ) ≤ n := by exact_mod_cast hn
    linarith
  obtain ⟨-, h2, h3⟩ := ring_hash_f3_wrong (by omega) hN hf
  exact ⟨h2 (by linarith), h3 debug, hashWrong_not_correct (h3 debug)⟩

end Hpx.RingSeams

#print axioms Hpx.RingSeams.ring_hash_sphere_total
#print axioms Hpx.RingSeams.ring_hash_f3_wrong
#print axioms Hpx.RingSeams.ring_hash_correct_iff
#print axioms Hpx.RingSeams.ring_hash_south_pole
#print axioms Hpx.RingSeams.ring_hash_seam_south
