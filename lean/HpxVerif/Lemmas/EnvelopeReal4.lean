import HpxVerif.Lemmas.EnvelopeReal2

/-!
# C16 — uniform bounds and the functions with radius, over ℝ (part 4)

* `dE_le_dN_above_lsc`: at every finite depth, for a centre at or above `LAT_OF_SQUARE_CELL` (northern hemisphere) the
  north vertex is the farthest one: `dE ≤ dN` (hence the true largest distance there is exactly `dN`).
* `step_le_dMax2`: for `δ ≤ 1/4` (depth `≥ 2`) `δ·π/4 ≤ dMax2 δ`: the anchor at the transition latitude dominates the
  three distances of EVERY cell whose vertices are in the equatorial region (`all_le_dMax2`).
* **`c2v_uniform_eqr`** (depth `≥ 2`): the value of `largest_center_to_vertex_distance` at ANY position with `|lat| < tl`
  dominates the true distances of ANY cell whose four vertices are in the equatorial region — in particular of the cell
  containing the position, of its neighbours, ….
* the functions WITH RADIUS.  `C2VReal.new_slopeEqr_neg` shows that `…_eqr_top_with_radius` evaluates the line at the
  wrong end of the latitude band (the value with radius is below the pointwise value).  Geometrically this is harmless
  in the equatorial region: `c2vR_ge_dMax2`, **`c2vR_dominates_eqr`** (depth `≥ 2`: every cell of the equatorial region),
  **`c2vR_dominates_band`** (every depth `≥ 1`: every cell whose centre is not below the latitude band of the cone),
  and the same for the model functions `largestC2VWithRadius_dominates_eqr`, `largestC2VWithRadius_dominates_band`.
-/

namespace Hpx.EnvelopeReal
open Hpx Hpx.C2V Hpx.C2VReal Hpx.Proj Real

/-! ## above `lsc` the north vertex is the farthest -/

/-- mean-value inequality for `sin` on `[lat, lat_N]`: `2/3·δ ≤ dN·cos(lat)` -/
theorem two_thirds_step_le (δ y : ℝ) (hδ : 0 ≤ δ) (hy0 : 0 ≤ y) (h1 : y + δ ≤ 3 / 2) :
    2 / 3 * δ ≤ dN δ y * cos (latOf y) := by
  have hpi := Real.pi_pos
  unfold dN latOf
  set a := Real.arcsin (y * (2 / 3)) with ha
  set a' := Real.arcsin ((y + δ) * (2 / 3)) with ha'
  have ha0 : 0 ≤ a := Real.arcsin_nonneg.mpr (by positivity)
  have haa : a ≤ a' := Real.arcsin_le_arcsin (by nlinarith)
  have ha2 : a' ≤ π / 2 := Real.arcsin_le_pi_div_two _
  have hsa : sin a = y * (2 / 3) := Real.sin_arcsin (by nlinarith) (by nlinarith)
  have hsa' : sin a' = (y + δ) * (2 / 3) := Real.sin_arcsin (by nlinarith) (by nlinarith)
  have hkey : sin a' - sin a = 2 * sin ((a' - a) / 2) * cos ((a' + a) / 2) := Real.sin_sub_sin _ _
  rw [hsa, hsa'] at hkey
  have hc : cos ((a' + a) / 2) ≤ cos a := Real.cos_le_cos_of_nonneg_of_le_pi ha0 (by linarith) (by linarith)
  have hc0 : 0 ≤ cos ((a' + a) / 2) := Real.cos_nonneg_of_neg_pi_div_two_le_of_le (by linarith) (by linarith)
  have hs : sin ((a' - a) / 2) ≤ (a' - a) / 2 := Real.sin_le (by linarith)
  have hprod : sin ((a' - a) / 2) * cos ((a' + a) / 2) ≤ (a' - a) / 2 * cos a :=
    mul_le_mul hs hc hc0 (by linarith)
  nlinarith

/-- **at or above `LAT_OF_SQUARE_CELL` the north vertex is at least as far as the east/west ones**, at every depth
    (`cos²(lat) ≤ cos²(lsc) = 8/(3π)`) -/
theorem dE_le_dN_above_lsc (δ y : ℝ) (hδ0 : 0 ≤ δ) (hδ1 : δ ≤ 1) (hy0 : 0 ≤ y) (h1 : y + δ ≤ 3 / 2)
    (hlat : lsc ≤ latOf y) : dE δ y ≤ dN δ y := by
  have hpi := Real.pi_pos
  have hE := dE_le δ y hδ0 hδ1
  have hN := two_thirds_step_le δ y hδ0 hy0 h1
  have hc0 := cos_latOf_nonneg y
  have hc : cos (latOf y) ≤ cosLsc := by
    rw [← cos_lsc]
    exact Real.cos_le_cos_of_nonneg_of_le_pi lsc_pos.le (by linarith [latOf_le y]) hlat
  rcases eq_or_lt_of_le hc0 with h | h
  · rw [← h, zero_mul] at hE
    exact hE.trans (dN_nonneg δ y hδ0)
  · refine hE.trans ?_
    have hsq : cos (latOf y) * cos (latOf y) ≤ 8 / (3 * π) := by
      rw [← cosLsc_sq]; exact mul_le_mul hc hc hc0 cosLsc_pos.le
    have h2 : cos (latOf y) * (cos (latOf y) * (δ * (π / 4))) ≤ cos (latOf y) * dN δ y := by
      calc cos (latOf y) * (cos (latOf y) * (δ * (π / 4))) = cos (latOf y) * cos (latOf y) * (δ * (π / 4)) := by ring
        _ ≤ 8 / (3 * π) * (δ * (π / 4)) := mul_le_mul_of_nonneg_right hsq (by positivity)
        _ = 2 / 3 * δ := by field_simp; ring
        _ ≤ cos (latOf y) * dN δ y := by linarith
    exact le_of_mul_le_mul_left h2 h

/-! ## depth `≥ 2`: `dMax2` dominates every distance -/

theorem cos_seven_twelfths_le : cos (7 / 12) ≤ 84 / 100 := by
  have h := Real.cos_bound (x := 7 / 12) (by rw [abs_of_pos] <;> norm_num)
  rw [abs_le] at h
  have e : |(7 / 12 : ℝ)| = 7 / 12 := abs_of_pos (by norm_num)
  rw [e] at h
  norm_num at h
  linarith [h.2]

/-- `δ·π/4 ≤ dMax2 δ` for `0 ≤ δ ≤ 1/4` -/
theorem step_le_dMax2 (δ : ℝ) (h0 : 0 ≤ δ) (h1 : δ ≤ 1 / 4) : δ * (π / 4) ≤ dMax2 δ := by
  have hpi := Real.pi_pos
  have hpi2 := Real.pi_lt_d2
  have hpi4 := Real.pi_le_four
  norm_num at hpi2
  unfold dMax2
  show _ ≤ Real.arcsin (2 / 3) - _
  set a := Real.arcsin (2 / 3) with ha
  set b := Real.arcsin ((1 - δ) * (2 / 3)) with hb
  have hy0 : 1 / 2 ≤ (1 - δ) * (2 / 3) := by nlinarith
  have hy1 : (1 - δ) * (2 / 3) ≤ 2 / 3 := by nlinarith
  have hb0 : 1 / 2 ≤ b := (le_arcsin (1 / 2) (by norm_num) (by norm_num)).trans (Real.arcsin_le_arcsin hy0)
  have ha0 : 2 / 3 ≤ a := le_arcsin (2 / 3) (by norm_num) (by norm_num)
  have hba : b ≤ a := Real.arcsin_le_arcsin hy1
  have ha2 : a ≤ π / 2 := Real.arcsin_le_pi_div_two _
  have hsa : sin a = 2 / 3 := Real.sin_arcsin (by norm_num) (by norm_num)
  have hsb : sin b = (1 - δ) * (2 / 3) := Real.sin_arcsin (by linarith) (by linarith)
  have hkey : sin a - sin b = 2 * sin ((a - b) / 2) * cos ((a + b) / 2) := Real.sin_sub_sin _ _
  rw [hsa, hsb] at hkey
  have h84 : (84 : ℝ) / 100 ≤ 8 / (3 * π) := by
    rw [le_div_iff₀ (by positivity)]; nlinarith
  have hc : cos ((a + b) / 2) ≤ 8 / (3 * π) :=
    (Real.cos_le_cos_of_nonneg_of_le_pi (by norm_num) (by linarith) (by linarith)).trans
      (cos_seven_twelfths_le.trans h84)
  have hc0 : 0 ≤ cos ((a + b) / 2) :=
    Real.cos_nonneg_of_neg_pi_div_two_le_of_le (by linarith) (by linarith)
  have hs : sin ((a - b) / 2) ≤ (a - b) / 2 := Real.sin_le (by linarith)
  have hprod : sin ((a - b) / 2) * cos ((a + b) / 2) ≤ (a - b) / 2 * (8 / (3 * π)) :=
    mul_le_mul hs hc hc0 (by linarith)
  have h2 : 2 / 3 * δ ≤ (a - b) * (8 / (3 * π)) := by nlinarith
  have h3 : (a - b) * (8 / (3 * π)) = (a - b) * 8 / (3 * π) := by ring
  rw [h3, le_div_iff₀ (by positivity)] at h2
  nlinarith

theorem dE_le_step (δ y : ℝ) (hδ0 : 0 ≤ δ) (hδ1 : δ ≤ 1) : dE δ y ≤ δ * (π / 4) := by
  have hpi := Real.pi_pos
  have h1 := dE_le δ y hδ0 hδ1
  have h2 : cos (latOf y) * (δ * (π / 4)) ≤ 1 * (δ * (π / 4)) :=
    mul_le_mul_of_nonneg_right (Real.cos_le_one _) (by positivity)
  linarith

theorem quarter_pow_range (d : Nat) (hd : 2 ≤ d) : 0 < (1 : ℝ) / 2 ^ d ∧ (1 : ℝ) / 2 ^ d ≤ 1 / 4 := by
  refine ⟨(distCw_range d).1, ?_⟩
  have : (2 : ℝ) ^ 2 ≤ 2 ^ d := pow_le_pow_right₀ (by norm_num) hd
  rw [div_le_div_iff₀ (by positivity) (by norm_num)]; linarith

/-- `dN`, `dS ≤ dMax2` for every cell whose vertices are in the equatorial region (either hemisphere) -/
theorem dN_dS_le_dMax2 (δ y : ℝ) (hδ : 0 ≤ δ) (hy : |y| + δ ≤ 1) : dN δ y ≤ dMax2 δ ∧ dS δ y ≤ dMax2 δ := by
  have hN := dN_le_dMax2 δ |y| hδ (abs_nonneg y) hy
  have hS := dS_le_dMax2 δ |y| hδ (abs_nonneg y) hy
  rcases le_or_gt 0 y with h | h
  · rw [abs_of_nonneg h] at hN hS; exact ⟨hN, hS⟩
  · rw [abs_of_neg h] at hN hS
    rw [dN_neg] at hN
    rw [dS_neg] at hS
    exact ⟨hS, hN⟩

/-- depth `≥ 2`: the three distances of every cell whose vertices are in the equatorial region are below `dMax2` -/
theorem all_le_dMax2 (d : Nat) (hd : 2 ≤ d) (y : ℝ) (hy : |y| + 1 / 2 ^ d ≤ 1) :
    max (dN (1 / 2 ^ d) y) (max (dS (1 / 2 ^ d) y) (dE (1 / 2 ^ d) y)) ≤ dMax2 (1 / 2 ^ d) := by
  obtain ⟨hδ0, hδ1⟩ := quarter_pow_range d hd
  obtain ⟨hN, hS⟩ := dN_dS_le_dMax2 _ y hδ0.le hy
  exact max_le hN (max_le hS ((dE_le_step _ y hδ0.le (by linarith)).trans (step_le_dMax2 _ hδ0.le hδ1)))

/-! ## the pointwise function at any position -/

/-- at any position of the equatorial region the envelope is at least `dMax2` (every depth) -/
theorem c2v_ge_dMax2 (d : Nat) (lon lat : ℝ) (hlat : |lat| < tl) : dMax2 (1 / 2 ^ d) ≤ c2v (Csts.new d) lon lat := by
  obtain ⟨hδ0, hδ1⟩ := distCw_range d
  unfold c2v
  rw [if_neg (not_le.mpr hlat)]
  by_cases h : lsc ≤ |lat|
  · rw [if_pos h]; exact new_topEnv_ge d |lat| hlat.le
  · rw [if_neg h]
    exact (dMax2_le_dMin2 _ hδ0 hδ1).trans (new_botEnv_ge d |lat| (abs_nonneg lat) (not_le.mp h).le)

/-- **`c2v_uniform_eqr`** (ℝ, every depth `d ≥ 2`): for ANY position with `|lat| < tl` and ANY plane ordinate `y` with
    `|y| + 1/2^d ≤ 1`, `c2v (ConstantsC2V::new(d)) lon lat` dominates the three true centre-to-vertex distances of the
    cells of ordinate `y`.  (At depth 1 the uniform statement is false by 0.7 %: `dMax2(1/2) = 0.38989 < π/8 = dE(1/2, 0)`;
    `envelope_dominates_eqr` covers depth 1 at the cell centres.) -/
theorem c2v_uniform_eqr (d : Nat) (hd : 2 ≤ d) (lon lat : ℝ) (hlat : |lat| < tl) (y : ℝ) (hy : |y| + 1 / 2 ^ d ≤ 1) :
    max (dN (1 / 2 ^ d) y) (max (dS (1 / 2 ^ d) y) (dE (1 / 2 ^ d) y)) ≤ c2v (Csts.new d) lon lat :=
  (all_le_dMax2 d hd y hy).trans (c2v_ge_dMax2 d lon lat hlat)

/-! ## the functions with radius -/

/-- when the polar-cap branch is not taken (`|lat| + r < tl`) the value with radius is at least `dMax2` -/
theorem c2vR_ge_dMax2 (d : Nat) (lon lat r : ℝ) (hA : |lat| + r < tl) :
    dMax2 (1 / 2 ^ d) ≤ c2vR (Csts.new d) lon lat r := by
  obtain ⟨hδ0, hδ1⟩ := distCw_range d
  have htop : dMax2 (1 / 2 ^ d) ≤ topEnv (Csts.new d : Csts ℝ) (min (|lat| + r) tl) :=
    new_topEnv_ge d _ (min_le_right _ _)
  have hbot : |lat| - r ≤ lsc → dMax2 (1 / 2 ^ d) ≤ botEnv (Csts.new d : Csts ℝ) (max (|lat| - r) 0) := fun h =>
    (dMax2_le_dMin2 _ hδ0 hδ1).trans (new_botEnv_ge d _ (le_max_right _ _) (max_le h lsc_pos.le))
  unfold c2vR
  rw [if_neg (not_le.mpr hA)]
  split_ifs with hB hC
  · exact htop
  · exact hbot (by linarith [abs_nonneg lat])
  · exact htop.trans (le_max_left _ _)

/-- when moreover the latitude band reaches below `lsc`, the value with radius is at least `dMin2` -/
theorem c2vR_ge_dMin2 (d : Nat) (lon lat r : ℝ) (hA : |lat| + r < tl) (hB : |lat| - r < lsc) :
    dMin2 (1 / 2 ^ d) ≤ c2vR (Csts.new d) lon lat r := by
  have hbot : dMin2 (1 / 2 ^ d) ≤ botEnv (Csts.new d : Csts ℝ) (max (|lat| - r) 0) :=
    new_botEnv_ge d _ (le_max_right _ _) (max_le hB.le lsc_pos.le)
  unfold c2vR
  rw [if_neg (not_le.mpr hA), if_neg (not_le.mpr hB)]
  split_ifs with hC
  · exact hbot
  · exact hbot.trans (le_max_right _ _)

/-- **`c2vR_dominates_eqr`** (ℝ, every depth `d ≥ 2`): whenever the polar-cap branch is not taken, the value of
    `largest_center_to_vertex_distance_with_radius` dominates the true distances of EVERY cell whose vertices are in the
    equatorial region — although its upper-equatorial branch returns the minimum, not the maximum, of the pointwise
    envelope over the band (`C2VReal.largestC2VWithRadius_lt_at_centre'`). -/
theorem c2vR_dominates_eqr (d : Nat) (hd : 2 ≤ d) (lon lat r : ℝ) (hA : |lat| + r < tl) (y : ℝ)
    (hy : |y| + 1 / 2 ^ d ≤ 1) :
    max (dN (1 / 2 ^ d) y) (max (dS (1 / 2 ^ d) y) (dE (1 / 2 ^ d) y)) ≤ c2vR (Csts.new d) lon lat r :=
  (all_le_dMax2 d hd y hy).trans (c2vR_ge_dMax2 d lon lat r hA)

/-- **`c2vR_dominates_band`** (ℝ, every depth `d ≥ 1`): whenever the polar-cap branch is not taken, the value with radius
    dominates the true distances of every cell (vertices in the equatorial region) whose centre latitude is not below
    the band: `|lat| − r ≤ |lat_c|`. -/
theorem c2vR_dominates_band (d : Nat) (hd : 1 ≤ d) (lon lat r : ℝ) (hA : |lat| + r < tl) (y : ℝ)
    (hy : |y| + 1 / 2 ^ d ≤ 1) (hband : |lat| - r ≤ |latOf y|) :
    max (dN (1 / 2 ^ d) y) (max (dS (1 / 2 ^ d) y) (dE (1 / 2 ^ d) y)) ≤ c2vR (Csts.new d) lon lat r := by
  obtain ⟨hδ0, hδ1⟩ := half_pow_range d hd
  obtain ⟨hN, hS⟩ := dN_dS_le_dMax2 _ y hδ0.le hy
  have h1 := c2vR_ge_dMax2 d lon lat r hA
  refine max_le (hN.trans h1) (max_le (hS.trans h1) ?_)
  by_cases hB : lsc ≤ |lat| - r
  · have hl : lsc ≤ latOf |y| := by rw [← abs_latOf]; linarith
    have := dE_le_dMax2 _ |y| hδ0.le hδ1 hl
    rcases le_or_gt 0 y with h | h
    · rw [abs_of_nonneg h] at this; exact this.trans h1
    · rw [abs_of_neg h, dE_neg] at this; exact this.trans h1
  · exact (dE_le_dMin2 _ y hδ0 (by linarith)).trans (c2vR_ge_dMin2 d lon lat r hA (not_le.mp hB))

/-- the model function with radius (release), depth `2 … 29` -/
theorem largestC2VWithRadius_dominates_eqr (d : Nat) (hd1 : 2 ≤ d) (hd2 : d ≤ 29) (lon lat r : ℝ)
    (hA : |lat| + r < tl) (y : ℝ) (hy : |y| + 1 / 2 ^ d ≤ 1) :
    ∃ v, largestC2VWithRadius false d lon lat r = some v ∧
      dN (1 / 2 ^ d) y ≤ v ∧ dS (1 / 2 ^ d) y ≤ v ∧ dE (1 / 2 ^ d) y ≤ v := by
  refine ⟨c2vR (Csts.new d) lon lat r, ?_, ?_⟩
  · rw [c2v_with_radius_region_choice, if_neg (by omega), if_neg (by omega)]
  · have := c2vR_dominates_eqr d hd1 lon lat r hA y hy
    simp only [max_le_iff] at this
    exact ⟨this.1, this.2.1, this.2.2⟩

/-- the model function with radius (release), depth `1 … 29`, cells whose centre is not below the band -/
theorem largestC2VWithRadius_dominates_band (d : Nat) (hd1 : 1 ≤ d) (hd2 : d ≤ 29) (lon lat r : ℝ)
    (hA : |lat| + r < tl) (y : ℝ) (hy : |y| + 1 / 2 ^ d ≤ 1) (hband : |lat| - r ≤ |latOf y|) :
    ∃ v, largestC2VWithRadius false d lon lat r = some v ∧
      dN (1 / 2 ^ d) y ≤ v ∧ dS (1 / 2 ^ d) y ≤ v ∧ dE (1 / 2 ^ d) y ≤ v := by
  refine ⟨c2vR (Csts.new d) lon lat r, ?_, ?_⟩
  · rw [c2v_with_radius_region_choice, if_neg (by omega), if_neg (by omega)]
  · have := c2vR_dominates_band d hd1 lon lat r hA y hy hband
    simp only [max_le_iff] at this
    exact ⟨this.1, this.2.1, this.2.2⟩

/-- the pointwise model function at any position of the equatorial region, depth `2 … 29` -/
theorem largestC2V_uniform_eqr (d : Nat) (hd1 : 2 ≤ d) (hd2 : d ≤ 29) (lon lat : ℝ) (hlat : |lat| < tl) (y : ℝ)
    (hy : |y| + 1 / 2 ^ d ≤ 1) :
    ∃ v, largestC2V false d lon lat = some v ∧
      dN (1 / 2 ^ d) y ≤ v ∧ dS (1 / 2 ^ d) y ≤ v ∧ dE (1 / 2 ^ d) y ≤ v := by
  refine ⟨c2v (Csts.new d) lon lat, ?_, ?_⟩
  · rw [c2v_region_choice, if_neg (by omega), if_neg (by omega)]
  · have := c2v_uniform_eqr d hd1 lon lat hlat y hy
    simp only [max_le_iff] at this
    exact ⟨this.1, this.2.1, this.2.2⟩

/-! ## examples -/

/-- a band inside `[lsc, tl)` (where the value with radius is the minimum of the pointwise envelope), and a cell -/
example : (0 : ℝ) ≤ (tl - lsc) / 4 ∧ |(lsc + tl) / 2| + (tl - lsc) / 4 < tl ∧ |(0 : ℝ)| + 1 / 2 ^ 2 ≤ 1 := by
  have h1 := lsc_pos
  have h2 := lsc_lt_tl
  rw [abs_of_pos (by linarith)]
  refine ⟨by linarith, by linarith, by norm_num⟩

end Hpx.EnvelopeReal

#print axioms Hpx.EnvelopeReal.dE_le_dN_above_lsc
#print axioms Hpx.EnvelopeReal.c2v_uniform_eqr
#print axioms Hpx.EnvelopeReal.c2vR_dominates_eqr
#print axioms Hpx.EnvelopeReal.c2vR_dominates_band
#print axioms Hpx.EnvelopeReal.largestC2VWithRadius_dominates_eqr
#print axioms Hpx.EnvelopeReal.largestC2VWithRadius_dominates_band
#print axioms Hpx.EnvelopeReal.largestC2V_uniform_eqr
