import HpxVerif.Lemmas.EConeBmoc2

/-!
# C13 on the BMOC RETURNED by `elliptical_cone_coverage(_custom)` (part 3: `to_lower_depth`, three-valued state, examples)

* `elliptical_cone_coverage_circular_state_not_absent`: no-miss as a statement on the three-valued state of the cell number
  of `q` at the requested depth;
* `lowered_covers`, `LoweredGood`, `lowered_good`, `lowered_no_miss`: `to_lower_depth` applied to a compacted list of good
  cells (generic; the cone versions of `ConeBmoc3` are instances of the same argument);
* **`elliptical_cone_coverage_custom_circular_no_miss_equatorial`**,
  **`elliptical_cone_coverage_custom_circular_full_inside_equatorial`**,
  **`elliptical_cone_coverage_custom_centre_cell_kept_equatorial`**, `elliptical_cone_coverage_custom_circular_good`
  (`delta_depth ≠ 0`; for `delta_depth = 0` the function IS `elliptical_cone_coverage`, by definition of
  `ellipticalConeCoverage`);
* examples on the ellipse `lon = 1`, `lat = 0.2`, `a = b = 0.05`, depth 6 (`best_starting_depth(0.05) = 3`).

As in `ConeBmoc3`, an ancestor reported in place of a tested cell may be centred ON the transition latitude; containment is
then stated with `ConeBmoc.InCellPlane` (`inCellPlane_eq`: it is `InCellEq` when the cell is strictly equatorial).
-/

namespace Hpx.EConeBmoc
open Hpx Hpx.Hash Hpx.C2V Hpx.C2VReal Hpx.Proj Hpx.Cover Hpx.CellReal Hpx.EnvelopeReal Hpx.TopoLift Hpx.CellExtent
open Hpx.Sph Hpx.Bmoc Hpx.Tightness Hpx.EConeEq Hpx.ConeBmoc Real

/-! ## no-miss on the three-valued state -/

/-- **no miss as a statement on the three-valued state** (circular ellipse, every start depth): the cell number `x` of `q`
    at the requested depth is not absent from the returned BMOC -/
theorem elliptical_cone_coverage_circular_state_not_absent (cfg : Cfg) (depth : ℕ) (lon lat a pa : ℝ) (ha : 0 < a)
    (hA : |lat| + a < tl) (hmin : 1 / 2 ^ 1024 < sin a) (m : BMOC)
    (h : ellipticalConeCoverage (α := ℝ) cfg depth lon lat a a pa = some m)
    (ds root : ℕ) (hst : IsStartCell cfg lon lat a ds root) (q : ℝ × ℝ)
    (hq : InCellEq ds root q) (hin : adist q (lon, lat) ≤ a) :
    ∃ x, InCellPlane depth x q ∧ (ds ≤ depth → InCellEq depth x q) ∧ stOf depth m.cells x ≠ .abs := by
  obtain ⟨hd, cells, hcells, rfl⟩ := ellipticalConeCoverage_unfold cfg depth lon lat a a pa m h
  obtain ⟨hw, hrange⟩ := CoverAll.ellInternal_wf cfg depth lon lat a a pa cells hcells
  obtain ⟨_, _, _, g4⟩ := packed_bmoc_wf depth hd cells hw hrange
  obtain ⟨c, hc, x, hx, hpl, heq, _⟩ := number_form depth hd cells hw ds root q hq
    (fun hds => ellInternal_circular_no_miss cfg depth hd lon lat a pa ha hA hmin cells hcells ds root hst hds q hq hin)
    (fun hds => ellInternal_circular_no_miss_small cfg depth lon lat a pa ha hA hmin cells hcells ds root hst hds q hq hin)
  refine ⟨x, hpl, heq, ?_⟩
  obtain ⟨h1, h2⟩ := (covers_iff_div depth c x).mpr hx
  show stOf depth (cellsOf depth (pack depth (cells.map (encode depth)))) x ≠ .abs
  rw [g4 x, Lower.stOf_of_mem hw hc h1 h2]
  exact Lower.ofFlag_ne_abs _

/-! ## `to_lower_depth` of a compacted list of good cells -/

/-- a cell number covered by a cell of the list is covered by an entry of the degraded BMOC -/
theorem lowered_covers (deep depth : ℕ) (hdeep : deep ≤ 29) (hlt : depth < deep) (cells : List Cell)
    (hw : WF deep cells) (hr : ∀ c ∈ cells, InRange c) (c : Cell) (hc : c ∈ cells) (x : ℕ)
    (hx : x / 4 ^ (deep - c.depth) = c.hash) :
    ∃ e ∈ toLowerLoop deep depth (pack deep (cells.map (encode deep))) none, (decode e depth).depth ≤ depth ∧
      x / 4 ^ (deep - (decode e depth).depth) = (decode e depth).hash := by
  obtain ⟨v1, v2, _, v4⟩ := packed_bmoc_wf deep hdeep cells hw hr
  obtain ⟨w1, w2⟩ := Lower.toLower_wf deep depth hdeep hlt _ v1 v2
  have s3 := Lower.toLower_sem deep depth hdeep hlt _ v1 v2
  obtain ⟨h1, h2⟩ := (covers_iff_div deep c x).mpr hx
  have hst1 : stOf deep (cellsOf deep (pack deep (cells.map (encode deep)))) x ≠ .abs := by
    rw [v4 x, Lower.stOf_of_mem hw hc h1 h2]
    exact Lower.ofFlag_ne_abs _
  obtain ⟨b1, b2⟩ := div_bounds x (4 ^ (deep - depth)) (Nat.pow_pos (by decide))
  have hst2 := (s3 (x / 4 ^ (deep - depth))).mpr ⟨x, b1, b2, hst1⟩
  obtain ⟨c'', hc'', k1, k2⟩ := stOf_ne_abs_covered hst2
  obtain ⟨e, he, rfl⟩ := List.mem_map.1 hc''
  have hcd := w1.depth_le _ hc''
  have hcov := (covers_iff_div depth _ _).mp ⟨k1, k2⟩
  rw [div_div_pow, show deep - depth + (depth - (decode e depth).depth) = deep - (decode e depth).depth by omega] at hcov
  exact ⟨e, he, hcd, hcov⟩

/-- what is known of the entries of the BMOC of depth `depth` obtained by `to_lower_depth` from the compacted BMOC of
    depth `deep`: a FULL entry is a full entry of the compacted BMOC (`GoodCellG … deep`); the others are at `depth` -/
def LoweredGood (P : ℝ × ℝ → Prop) (V : ℕ → Prop) (deep depth : ℕ) (c : Cell) : Prop :=
  (c.full = true → |pcy c.depth c.hash| ≠ 1 ∧ ∀ q, InCellEq c.depth c.hash q →
    P q ∨ ∃ x, x / 4 ^ (deep - c.depth) = c.hash ∧ InCellEq deep x q ∧ V x) ∧
  (c.full = false → c.depth = depth)

theorem lowered_good (P : ℝ × ℝ → Prop) (V : ℕ → Prop) (deep depth : ℕ) (hdeep : deep ≤ 29) (hlt : depth < deep)
    (cells : List Cell) (hw : WF deep cells) (hr : ∀ c ∈ cells, InRange c) (hg : ∀ c ∈ cells, GoodCellG P V deep c) :
    ∀ e ∈ toLowerLoop deep depth (pack deep (cells.map (encode deep))) none,
      LoweredGood P V deep depth (decode e depth) := by
  intro e he
  obtain ⟨v1, v2, _, v4⟩ := packed_bmoc_wf deep hdeep cells hw hr
  obtain ⟨g1, _⟩ := packedG_good P V deep hdeep cells hw hr hg
  obtain ⟨hcl, _⟩ := Lower.toLowerLoop_cells deep depth hdeep hlt (pack deep (cells.map (encode deep))) none v1 (by simp)
  have hc'' : decode e depth ∈ cellsOf depth (toLowerLoop deep depth (pack deep (cells.map (encode deep))) none) :=
    List.mem_map.mpr ⟨e, he, rfl⟩
  rw [hcl] at hc''
  rcases lowerCells_mem depth _ none _ hc'' with ⟨h1, h2⟩ | ⟨h1, h2⟩
  · obtain ⟨e1, he1, hdec⟩ := List.mem_map.1 h1
    have hg' := g1 e1 he1
    rw [hdec] at hg'
    refine ⟨hg'.1, fun hf => ?_⟩
    have := hg'.2 hf
    omega
  · exact ⟨fun hf => (by rw [h2] at hf; cases hf), fun _ => h1⟩

/-- a position `q` of the cell number `x` (depth `deep`) covered by a cell of the list is a position (plane sense) of an
    entry of the degraded BMOC; in the sense of `InCellEq` when that entry is strictly equatorial, or flagged full with
    `x` strictly equatorial -/
theorem lowered_no_miss (P : ℝ × ℝ → Prop) (V : ℕ → Prop) (deep depth : ℕ) (hdeep : deep ≤ 29) (hlt : depth < deep)
    (cells : List Cell) (hw : WF deep cells) (hr : ∀ c ∈ cells, InRange c) (hg : ∀ c ∈ cells, GoodCellG P V deep c)
    (c : Cell) (hc : c ∈ cells) (x : ℕ) (hx : x / 4 ^ (deep - c.depth) = c.hash) (q : ℝ × ℝ)
    (hpl : InCellPlane deep x q) :
    ∃ e ∈ toLowerLoop deep depth (pack deep (cells.map (encode deep))) none,
      InCellPlane (decode e depth).depth (decode e depth).hash q ∧
      x / 4 ^ (deep - (decode e depth).depth) = (decode e depth).hash ∧
      (|pcy (decode e depth).depth (decode e depth).hash| < 1 →
        InCellEq (decode e depth).depth (decode e depth).hash q) ∧
      (InCellEq deep x q → (decode e depth).full = true → InCellEq (decode e depth).depth (decode e depth).hash q) := by
  obtain ⟨e, he, hcd, hcov⟩ := lowered_covers deep depth hdeep hlt cells hw hr c hc x hx
  have hpl' := covers_plane deep _ (by omega) x hcov q hpl
  refine ⟨e, he, hpl', hcov, fun hband => inCellPlane_eq _ _ q hpl' hband, fun hxq hf => ?_⟩
  have hgood := lowered_good P V deep depth hdeep hlt cells hw hr hg e he
  exact full_contains deep _ (hgood.1 hf).1 (by omega) x hcov q hxq

/-! ## `elliptical_cone_coverage_custom`, `delta_depth ≠ 0` -/

/-- what `elliptical_cone_coverage_custom` returns for `delta_depth ≠ 0`: the packed list of the descent at
    `deep = depth + delta_depth`, degraded by `to_lower_depth` -/
theorem ellipticalConeCoverageCustom_unfold (cfg : Cfg) (depth deltaDepth : ℕ) (hdd : deltaDepth ≠ 0)
    (lon lat a b pa : ℝ) (m : BMOC)
    (h : ellipticalConeCoverageCustom (α := ℝ) cfg depth deltaDepth lon lat a b pa = some m) :
    depth + deltaDepth ≤ 29 ∧ ∃ cells, ellInternal cfg (depth + deltaDepth) lon lat a b pa = some cells ∧
      m = { dmax := depth, entries := (toLowerLoop (depth + deltaDepth) depth
        (pack (depth + deltaDepth) (cells.map (encode (depth + deltaDepth)))) none) } := by
  unfold ellipticalConeCoverageCustom at h
  split at h
  · simp at h
  · split at h
    · rename_i h0
      exact absurd (by simpa using h0) hdd
    · simp only [] at h
      split at h
      · simp at h
      · rename_i hdeep
        split at h
        · simp at h
        · rename_i cells hcells
          simp only [Option.map_eq_some_iff] at h
          obtain ⟨e, he, rfl⟩ := h
          refine ⟨by omega, cells, hcells, ?_⟩
          unfold toLowerDepth at he
          split at he
          · simp at he
          · cases he; rfl

/-- `delta_depth = 0`: `elliptical_cone_coverage_custom` IS `elliptical_cone_coverage` -/
theorem ellipticalConeCoverageCustom_zero {α : Type} [Num α] (cfg : Cfg) (depth : ℕ) (lon lat a b pa : α) :
    ellipticalConeCoverageCustom cfg depth 0 lon lat a b pa = ellipticalConeCoverage cfg depth lon lat a b pa := rfl

/-- **no-miss for `elliptical_cone_coverage_custom`, `delta_depth ≠ 0`, circular ellipse** (ℝ, both profiles).  The descent
    is run at `deep = depth + delta_depth ≤ 29`, compacted, then degraded to `depth`.  For every strictly equatorial start
    cell `root` (of the descent at `deep`; any start depth `ds`) and every position `q` of the disc in it, some ENTRY of the
    returned BMOC contains `q` in the plane sense — in the sense of `InCellEq` when the entry is strictly equatorial, or
    flagged full (`ds ≤ deep`) — and covers the cell number `x` of `q` at depth `deep`. -/
theorem elliptical_cone_coverage_custom_circular_no_miss_equatorial (cfg : Cfg) (depth deltaDepth : ℕ)
    (hdd : deltaDepth ≠ 0) (lon lat a pa : ℝ) (ha : 0 < a) (hA : |lat| + a < tl) (hmin : 1 / 2 ^ 1024 < sin a)
    (m : BMOC) (h : ellipticalConeCoverageCustom (α := ℝ) cfg depth deltaDepth lon lat a a pa = some m)
    (ds root : ℕ) (hst : IsStartCell cfg lon lat a ds root) (q : ℝ × ℝ)
    (hq : InCellEq ds root q) (hin : adist q (lon, lat) ≤ a) :
    ∃ e ∈ m.entries, InCellPlane (decode e depth).depth (decode e depth).hash q ∧
      (|pcy (decode e depth).depth (decode e depth).hash| < 1 →
        InCellEq (decode e depth).depth (decode e depth).hash q) ∧
      (ds ≤ depth + deltaDepth → (decode e depth).full = true →
        InCellEq (decode e depth).depth (decode e depth).hash q) ∧
      ∃ x, InCellPlane (depth + deltaDepth) x q ∧ (ds ≤ depth + deltaDepth → InCellEq (depth + deltaDepth) x q) ∧
        x / 4 ^ (depth + deltaDepth - (decode e depth).depth) = (decode e depth).hash := by
  obtain ⟨hdeep, cells, hcells, rfl⟩ := ellipticalConeCoverageCustom_unfold cfg depth deltaDepth hdd lon lat a a pa m h
  set deep := depth + deltaDepth with hdeep_def
  obtain ⟨hw, hrange⟩ := CoverAll.ellInternal_wf cfg deep lon lat a a pa cells hcells
  obtain ⟨c, hc, x, hx, hpl, heq, _⟩ := number_form deep hdeep cells hw ds root q hq
    (fun hds => ellInternal_circular_no_miss cfg deep hdeep lon lat a pa ha hA hmin cells hcells ds root hst hds q hq hin)
    (fun hds => ellInternal_circular_no_miss_small cfg deep lon lat a pa ha hA hmin cells hcells ds root hst hds q hq hin)
  obtain ⟨e, he, k1, k2, k3, k4⟩ := lowered_no_miss _ _ deep depth hdeep (by omega) cells hw hrange
    (ellInternal_good cfg deep hdeep lon lat a a pa ha le_rfl hA cells hcells) c hc x hx q hpl
  exact ⟨e, he, k1, k3, fun hds hf => k4 (heq hds) hf, x, hpl, heq, k2⟩

/-- **every entry of the BMOC returned by `elliptical_cone_coverage_custom` (`delta_depth ≠ 0`), circular ellipse, is a good
    cell**: a FULL entry is a full entry of the compacted BMOC of depth `deep` — not centred on the transition latitude,
    each of its positions within `a` of `(lon, lat)` or in a cell of depth `deep` under it whose four vertices are within `a`;
    the other entries are partial cells at `depth` -/
theorem elliptical_cone_coverage_custom_circular_good (cfg : Cfg) (depth deltaDepth : ℕ) (hdd : deltaDepth ≠ 0)
    (lon lat a pa : ℝ) (ha : 0 < a) (hA : |lat| + a < tl) (m : BMOC)
    (h : ellipticalConeCoverageCustom (α := ℝ) cfg depth deltaDepth lon lat a a pa = some m)
    (e : ℕ) (he : e ∈ m.entries) :
    LoweredGood (fun q => adist q (lon, lat) ≤ a) (VtxInside cfg lon lat a (depth + deltaDepth)) (depth + deltaDepth) depth
      (decode e depth) := by
  obtain ⟨hdeep, cells, hcells, rfl⟩ := ellipticalConeCoverageCustom_unfold cfg depth deltaDepth hdd lon lat a a pa m h
  obtain ⟨hw, hrange⟩ := CoverAll.ellInternal_wf cfg _ lon lat a a pa cells hcells
  exact lowered_good _ _ _ depth hdeep (by omega) cells hw hrange
    (ellInternal_good_circular cfg _ hdeep lon lat a pa ha hA cells hcells) e he

/-- **full flags of `elliptical_cone_coverage_custom`, `delta_depth ≠ 0`, circular ellipse**: for every entry flagged FULL and
    every position `q` of its cell (`InCellEq`), EITHER `q` is within `a` of `(lon, lat)`, OR `q` is a position of a cell `x` of
    depth `deep = depth + delta_depth` under the entry whose four VERTICES are within `a` of `(lon, lat)` -/
theorem elliptical_cone_coverage_custom_circular_full_inside_equatorial (cfg : Cfg) (depth deltaDepth : ℕ)
    (hdd : deltaDepth ≠ 0) (lon lat a pa : ℝ) (ha : 0 < a) (hA : |lat| + a < tl) (m : BMOC)
    (h : ellipticalConeCoverageCustom (α := ℝ) cfg depth deltaDepth lon lat a a pa = some m)
    (e : ℕ) (he : e ∈ m.entries) (hf : (decode e depth).full = true) (q : ℝ × ℝ)
    (hq : InCellEq (decode e depth).depth (decode e depth).hash q) :
    adist q (lon, lat) ≤ a ∨
    ∃ x, x / 4 ^ (depth + deltaDepth - (decode e depth).depth) = (decode e depth).hash ∧
      InCellEq (depth + deltaDepth) x q ∧
      ∃ vs, Hash.vertices (α := ℝ) cfg (depth + deltaDepth) x = some vs ∧ ∀ v ∈ vs, adist v (lon, lat) ≤ a :=
  ((elliptical_cone_coverage_custom_circular_good cfg depth deltaDepth hdd lon lat a pa ha hA m h e he).1 hf).2 q hq

/-- **the cell of the centre is kept by `elliptical_cone_coverage_custom`, `delta_depth ≠ 0`** (general ellipse
    `0 < b ≤ a`, `|lat| + a < tl`, `sin b > 2^-1024`): if the centre `(lon, lat)` is a position of a strictly equatorial start
    cell `root` (any start depth), some ENTRY of the returned BMOC contains it in the plane sense — in the sense of
    `InCellEq` when the entry is strictly equatorial, or flagged full (`ds ≤ deep`) -/
theorem elliptical_cone_coverage_custom_centre_cell_kept_equatorial (cfg : Cfg) (depth deltaDepth : ℕ)
    (hdd : deltaDepth ≠ 0) (lon lat a b pa : ℝ) (hb : 0 < b) (hba : b ≤ a) (hA : |lat| + a < tl)
    (hmin : 1 / 2 ^ 1024 < sin b) (m : BMOC)
    (h : ellipticalConeCoverageCustom (α := ℝ) cfg depth deltaDepth lon lat a b pa = some m)
    (ds root : ℕ) (hst : IsStartCell cfg lon lat a ds root) (hq : InCellEq ds root (lon, lat)) :
    ∃ e ∈ m.entries, InCellPlane (decode e depth).depth (decode e depth).hash (lon, lat) ∧
      (|pcy (decode e depth).depth (decode e depth).hash| < 1 →
        InCellEq (decode e depth).depth (decode e depth).hash (lon, lat)) ∧
      (ds ≤ depth + deltaDepth → (decode e depth).full = true →
        InCellEq (decode e depth).depth (decode e depth).hash (lon, lat)) := by
  obtain ⟨hdeep, cells, hcells, rfl⟩ := ellipticalConeCoverageCustom_unfold cfg depth deltaDepth hdd lon lat a b pa m h
  set deep := depth + deltaDepth with hdeep_def
  obtain ⟨hw, hrange⟩ := CoverAll.ellInternal_wf cfg deep lon lat a b pa cells hcells
  obtain ⟨c, hc, x, hx, hpl, heq, _⟩ := number_form deep hdeep cells hw ds root (lon, lat) hq
    (fun hds => ellInternal_centre_kept cfg deep hdeep lon lat a b pa hb hba hA hmin cells hcells ds root hst hds hq)
    (fun hds => ellInternal_centre_kept_small cfg deep lon lat a b pa hb hba hA hmin cells hcells ds root hst hds hq)
  obtain ⟨e, he, k1, _, k3, k4⟩ := lowered_no_miss _ _ deep depth hdeep (by omega) cells hw hrange
    (ellInternal_good cfg deep hdeep lon lat a b pa hb hba hA cells hcells) c hc x hx _ hpl
  exact ⟨e, he, k1, k3, fun hds hf => k4 (heq hds) hf⟩

/-! ## examples: the ellipse `lon = 1`, `lat = 0.2`, `a = b = 0.05`, depth 6 (`best_starting_depth(0.05) = 3 < 6`) -/

/-- the numeric hypotheses and the start cell of the centre of the concrete ellipse -/
example : (0 : ℝ) < 1 / 20 ∧ |(1 / 5 : ℝ)| + 1 / 20 < tl ∧ 1 / 2 ^ 1024 < sin (1 / 20 : ℝ) ∧
    bestStartingDepth (1 / 20 : ℝ) = some 3 ∧ InCellEq 3 4 ((1 : ℝ), (1 / 5 : ℝ)) ∧
    adist ((1 : ℝ), (1 / 5 : ℝ)) (1, 1 / 5) ≤ 1 / 20 := by
  obtain ⟨h1, h2, h3⟩ := ex_hyps
  refine ⟨h1, h2, h3, best_starting_depth_ex, ex_centre_in_cell, ?_⟩
  rw [adist_self]; norm_num

/-- **the three theorems on the concrete ellipse** `lon = 1`, `lat = 0.2`, `a = b = 0.05`, any position angle, depth 6:
    whatever BMOC `elliptical_cone_coverage(6, 1, 0.2, 0.05, 0.05, pa)` returns (either profile), every position of the disc
    in a strictly equatorial start cell (the cell of the centre at depth 3 and its neighbours) lies in an entry; every
    position of an entry flagged full — packed parents included — is in the disc or in a depth-6 cell under the entry whose
    four vertices are in the disc; and the centre lies in an entry -/
example (cfg : Cfg) (pa : ℝ) (m : BMOC)
    (h : ellipticalConeCoverage (α := ℝ) cfg 6 1 (1 / 5) (1 / 20) (1 / 20) pa = some m) :
    (∀ h0 nm, Hash.hashV2 (α := ℝ) cfg 3 1 (1 / 5) = some h0 → Topo.neighbours cfg 3 h0 true = some nm →
      ∀ root ∈ nm.map (·.2), ∀ q, InCellEq 3 root q → adist q (1, 1 / 5) ≤ 1 / 20 →
        ∃ e ∈ m.entries, InCellEq (decode e 6).depth (decode e 6).hash q) ∧
    (∀ e ∈ m.entries, (decode e 6).full = true → ∀ q, InCellEq (decode e 6).depth (decode e 6).hash q →
      adist q (1, 1 / 5) ≤ 1 / 20 ∨
      ∃ x, x / 4 ^ (6 - (decode e 6).depth) = (decode e 6).hash ∧ InCellEq 6 x q ∧
        ∃ vs, Hash.vertices (α := ℝ) cfg 6 x = some vs ∧ ∀ v ∈ vs, adist v (1, 1 / 5) ≤ 1 / 20) ∧
    (∀ h0 nm, Hash.hashV2 (α := ℝ) cfg 3 1 (1 / 5) = some h0 → Topo.neighbours cfg 3 h0 true = some nm →
      4 ∈ nm.map (·.2) → ∃ e ∈ m.entries, InCellEq (decode e 6).depth (decode e 6).hash ((1 : ℝ), (1 / 5 : ℝ))) := by
  obtain ⟨h1, h2, h3⟩ := ex_hyps
  refine ⟨?_, ?_, ?_⟩
  · intro h0 nm hh0 hnm root hroot q hq hin
    exact elliptical_cone_coverage_circular_no_miss_equatorial cfg 6 1 (1 / 5) (1 / 20) pa h1 h2 h3 m h 3 root
      (ex_start cfg h0 nm hh0 hnm root hroot) (by decide) q hq hin
  · intro e he hf q hq
    exact elliptical_cone_coverage_circular_full_inside_equatorial cfg 6 1 (1 / 5) (1 / 20) pa h1 h2 m h e he hf q hq
  · intro h0 nm hh0 hnm hroot
    exact elliptical_cone_coverage_centre_cell_kept_equatorial cfg 6 1 (1 / 5) (1 / 20) (1 / 20) pa h1 le_rfl h2 h3 m h 3 4
      (ex_start cfg h0 nm hh0 hnm 4 hroot) (by decide) ex_centre_in_cell

/-- a genuinely elliptical example for the centre cell: `a = 0.05`, `b = 0.01`, position angle `0.3`, depth 6 -/
example (cfg : Cfg) (m : BMOC)
    (h : ellipticalConeCoverage (α := ℝ) cfg 6 1 (1 / 5) (1 / 20) (1 / 100) (3 / 10) = some m)
    (h0 : ℕ) (nm : List (MW × ℕ)) (hh0 : Hash.hashV2 (α := ℝ) cfg 3 1 (1 / 5) = some h0)
    (hnm : Topo.neighbours cfg 3 h0 true = some nm) (hroot : 4 ∈ nm.map (·.2)) :
    ∃ e ∈ m.entries, InCellEq (decode e 6).depth (decode e 6).hash ((1 : ℝ), (1 / 5 : ℝ)) := by
  obtain ⟨_, h2, _⟩ := ex_hyps
  have hpi := Real.pi_gt_three
  exact elliptical_cone_coverage_centre_cell_kept_equatorial cfg 6 1 (1 / 5) (1 / 20) (1 / 100) (3 / 10) (by norm_num)
    (by norm_num) h2 (tiny_lt_sin _ (by norm_num) (by linarith)) m h 3 4 (ex_start cfg h0 nm hh0 hnm 4 hroot) (by decide)
    ex_centre_in_cell

/-- **the `custom` variant on the concrete ellipse** (`depth = 4`, `delta_depth = 2`: descent at depth 6, degraded to 4) -/
example (cfg : Cfg) (pa : ℝ) (m : BMOC)
    (h : ellipticalConeCoverageCustom (α := ℝ) cfg 4 2 1 (1 / 5) (1 / 20) (1 / 20) pa = some m) :
    (∀ h0 nm, Hash.hashV2 (α := ℝ) cfg 3 1 (1 / 5) = some h0 → Topo.neighbours cfg 3 h0 true = some nm →
      ∀ root ∈ nm.map (·.2), ∀ q, InCellEq 3 root q → adist q (1, 1 / 5) ≤ 1 / 20 →
        ∃ e ∈ m.entries, InCellPlane (decode e 4).depth (decode e 4).hash q) ∧
    (∀ e ∈ m.entries, (decode e 4).full = true → ∀ q, InCellEq (decode e 4).depth (decode e 4).hash q →
      adist q (1, 1 / 5) ≤ 1 / 20 ∨
      ∃ x, x / 4 ^ (4 + 2 - (decode e 4).depth) = (decode e 4).hash ∧ InCellEq (4 + 2) x q ∧
        ∃ vs, Hash.vertices (α := ℝ) cfg (4 + 2) x = some vs ∧ ∀ v ∈ vs, adist v (1, 1 / 5) ≤ 1 / 20) := by
  obtain ⟨h1, h2, h3⟩ := ex_hyps
  refine ⟨?_, ?_⟩
  · intro h0 nm hh0 hnm root hroot q hq hin
    obtain ⟨e, he, k, _⟩ := elliptical_cone_coverage_custom_circular_no_miss_equatorial cfg 4 2 (by decide) 1 (1 / 5)
      (1 / 20) pa h1 h2 h3 m h 3 root (ex_start cfg h0 nm hh0 hnm root hroot) q hq hin
    exact ⟨e, he, k⟩
  · intro e he hf q hq
    exact elliptical_cone_coverage_custom_circular_full_inside_equatorial cfg 4 2 (by decide) 1 (1 / 5) (1 / 20) pa h1 h2
      m h e he hf q hq

end Hpx.EConeBmoc

#print axioms Hpx.EConeBmoc.elliptical_cone_coverage_circular_state_not_absent
#print axioms Hpx.EConeBmoc.elliptical_cone_coverage_custom_circular_no_miss_equatorial
#print axioms Hpx.EConeBmoc.elliptical_cone_coverage_custom_circular_full_inside_equatorial
#print axioms Hpx.EConeBmoc.elliptical_cone_coverage_custom_circular_good
#print axioms Hpx.EConeBmoc.elliptical_cone_coverage_custom_centre_cell_kept_equatorial
