/-
Point-in-polygon over the reals (C12), part 5: removal of the genericity hypotheses of `contains_convex` by perturbation.
The tests made by `Polygon::contains` are stable under a small move of the point to the east (the longitude ranges are
closed at their western end and open at their eastern end) and under a small move in latitude (strict sign tests), so the
theorem extends to points whose meridian passes through a vertex (`contains_convex_any_lon`) and to the two poles
(`contains_convex_all`): the only points left out are those on the great circle of an edge.
-/
import HpxVerif.Lemmas.PolyReal4
import Mathlib.Topology.Order.LeftRightNhds
import Mathlib.Topology.Algebra.Order.Field
import Mathlib.Analysis.SpecialFunctions.Trigonometric.Deriv

namespace Hpx.Sph
open Real Hpx.Proj Filter Topology

theorem eventually_forall_mem_list {α β : Type} (l : List α) (f : Filter β) (P : α → β → Prop)
    (h : ∀ a ∈ l, ∀ᶠ x in f, P a x) : ∀ᶠ x in f, ∀ a ∈ l, P a x := by
  induction l with
  | nil => exact Eventually.of_forall (fun x a ha => by simp at ha)
  | cons a l ih =>
    have h1 := h a (by simp)
    have h2 := ih (fun b hb => h b (by simp [hb]))
    filter_upwards [h1, h2] with x hx1 hx2 b hb
    rcases List.mem_cons.mp hb with rfl | hb
    · exact hx1
    · exact hx2 b hb

theorem eventually_small (δ : ℝ) (hδ : 0 < δ) : ∀ᶠ ε in 𝓝[>] (0 : ℝ), 0 < ε ∧ ε < δ :=
  Ioo_mem_nhdsGT hδ

/-- a comparison with a constant does not change when the longitude moves a little to the east -/
theorem eventually_compare (c l : ℝ) : ∀ᶠ ε in 𝓝[>] (0 : ℝ), (c ≤ l + ε ↔ c ≤ l) ∧ l + ε ≠ c := by
  by_cases h : c ≤ l
  · filter_upwards [eventually_small 1 one_pos] with ε hε
    exact ⟨⟨fun _ => h, fun _ => by linarith⟩, by linarith⟩
  · have h' : l < c := not_le.mp h
    filter_upwards [eventually_small (c - l) (by linarith)] with ε hε
    exact ⟨⟨fun h1 => by linarith, fun h1 => by linarith⟩, by linarith⟩

theorem lonRange_congr (a b l l' : ℝ) (ha : a ≤ l' ↔ a ≤ l) (hb : b ≤ l' ↔ b ≤ l) : LonRange a b l' ↔ LonRange a b l := by
  unfold LonRange
  simp only [min_le_iff, max_le_iff, ← not_le, ha, hb]

/-- the point moved by `a ε` in longitude and `b ε` in latitude -/
noncomputable def pert (p : Coo ℝ) (a b ε : ℝ) : Coo ℝ := cooOf (p.lon + a * ε, p.lat + b * ε)

theorem dot_pert_tendsto {p : Coo ℝ} (hp : p.Valid) (a b c : ℝ) (N : ℝ × ℝ × ℝ) :
    Tendsto (fun ε => c * dot (pert p a b ε) N) (𝓝 0) (𝓝 (c * dot p N)) := by
  have hc : Continuous fun ε : ℝ => c * (cos (p.lat + b * ε) * cos (p.lon + a * ε) * N.1 +
      cos (p.lat + b * ε) * sin (p.lon + a * ε) * N.2.1 + sin (p.lat + b * ε) * N.2.2) := by fun_prop
  have := hc.tendsto 0
  simp only [mul_zero, add_zero] at this
  have e : c * dot p N = c * (cos p.lat * cos p.lon * N.1 + cos p.lat * sin p.lon * N.2.1 + sin p.lat * N.2.2) := by
    unfold dot; rw [hp.hx, hp.hy, hp.hz]
  rw [e]
  exact this

/-- a non-zero scalar product keeps its sign -/
theorem sign_stable {p : Coo ℝ} (hp : p.Valid) (a b c : ℝ) (N : ℝ × ℝ × ℝ) (h : c * dot p N ≠ 0) :
    ∀ᶠ ε in 𝓝[>] (0 : ℝ), (0 < c * dot (pert p a b ε) N ↔ 0 < c * dot p N) ∧ c * dot (pert p a b ε) N ≠ 0 := by
  have ht := (dot_pert_tendsto hp a b c N).mono_left (nhdsWithin_le_nhds (s := Set.Ioi 0))
  rcases lt_or_gt_of_ne h with hneg | hpos
  · filter_upwards [ht.eventually_lt_const hneg] with ε hε
    exact ⟨⟨fun h1 => by linarith, fun h1 => by linarith⟩, hε.ne⟩
  · filter_upwards [ht.eventually_const_lt hpos] with ε hε
    exact ⟨⟨fun _ => hpos, fun _ => hε⟩, hε.ne'⟩

theorem dot_npCross_ne {p u w : Coo ℝ} (h : dot p (cross u w) ≠ 0) : (1 : ℝ) * dot p (npCross u w) ≠ 0 := by
  rw [one_mul]
  unfold npCross
  split
  · intro h0; apply h
    unfold dot at h0 ⊢
    simp only at h0
    linarith
  · exact h

/-- `contains` only depends on the tests made on the edges -/
theorem contains_congr (poly : Polygon ℝ) (hb : poly.Built) (p p' : Coo ℝ)
    (h : ∀ e ∈ edges poly.vertices,
      (isInLonRange p e.1 e.2 && Num.gt (dot p (npCross e.1 e.2)) (Num.zero : ℝ)) =
      (isInLonRange p' e.1 e.2 && Num.gt (dot p' (npCross e.1 e.2)) (Num.zero : ℝ))) :
    poly.contains p = poly.contains p' := by
  unfold Polygon.contains
  congr 1
  unfold oddNumIntersectGoingSouth
  rw [hb.cps]
  unfold edges at h ⊢
  cases hl : poly.vertices.getLast? with
  | none => rfl
  | some last =>
    simp only [hl] at h ⊢
    rw [odd_go_eq, odd_go_eq]
    congr 2
    apply List.countP_congr
    intro e he
    rw [h e he]

theorem pert_lon (p : Coo ℝ) (a b ε : ℝ) : (pert p a b ε).lon = p.lon + a * ε := rfl
theorem pert_lat (p : Coo ℝ) (a b ε : ℝ) : (pert p a b ε).lat = p.lat + b * ε := rfl

/-- transfer of the theorem from a class `Q` of points to a point all of whose small perturbations are in `Q` -/
theorem contains_convex_transfer (poly : Polygon ℝ) (hb : poly.Built) (o : ℝ) (p : Coo ℝ) (hp : p.Valid)
    (hgc : ∀ e ∈ edges poly.vertices, dot p (cross e.1 e.2) ≠ 0) (ho : o ≠ 0) (a b : ℝ) (Q : Coo ℝ → Prop)
    (hlon : ∀ᶠ ε in 𝓝[>] (0 : ℝ), ∀ e ∈ edges poly.vertices,
      (LonRange e.1.lon e.2.lon (p.lon + a * ε) ↔ LonRange e.1.lon e.2.lon p.lon))
    (hQ : ∀ᶠ ε in 𝓝[>] (0 : ℝ), Q (pert p a b ε))
    (known : ∀ p', Q p' → (∀ e ∈ edges poly.vertices, dot p' (cross e.1 e.2) ≠ 0) →
      (poly.contains p' = true ↔ ∀ e ∈ edges poly.vertices, 0 < o * dot p' (cross e.1 e.2))) :
    poly.contains p = true ↔ ∀ e ∈ edges poly.vertices, 0 < o * dot p (cross e.1 e.2) := by
  have s1 : ∀ᶠ ε in 𝓝[>] (0 : ℝ), ∀ e ∈ edges poly.vertices,
      (0 < 1 * dot (pert p a b ε) (npCross e.1 e.2) ↔ 0 < 1 * dot p (npCross e.1 e.2)) ∧
        1 * dot (pert p a b ε) (npCross e.1 e.2) ≠ 0 :=
    eventually_forall_mem_list _ _ _ (fun e he => sign_stable hp a b 1 _ (dot_npCross_ne (hgc e he)))
  have s2 : ∀ᶠ ε in 𝓝[>] (0 : ℝ), ∀ e ∈ edges poly.vertices,
      (0 < o * dot (pert p a b ε) (cross e.1 e.2) ↔ 0 < o * dot p (cross e.1 e.2)) ∧
        o * dot (pert p a b ε) (cross e.1 e.2) ≠ 0 :=
    eventually_forall_mem_list _ _ _ (fun e he => sign_stable hp a b o _ (mul_ne_zero ho (hgc e he)))
  obtain ⟨ε, h1, h2, h3, h4⟩ := (hlon.and (hQ.and (s1.and s2))).exists
  have hc : poly.contains p = poly.contains (pert p a b ε) := by
    apply contains_congr poly hb
    intro e he
    congr 1
    · rw [Bool.eq_iff_iff, is_in_lon_range_spec, is_in_lon_range_spec, pert_lon]
      exact (h1 e he).symm
    · rw [r_gt, r_gt, r_zero, decide_eq_decide]
      have := (h3 e he).1
      rw [one_mul, one_mul] at this
      exact this.symm
  rw [hc, known _ h2 (fun e he h0 => (h4 e he).2 (by rw [h0, mul_zero]))]
  constructor
  · intro h e he; exact (h4 e he).1.mp (h e he)
  · intro h e he; exact (h4 e he).1.mpr (h e he)

theorem valid_eq_cooOf {p : Coo ℝ} (hp : p.Valid) : p = cooOf (p.lon, p.lat) := by
  cases p
  simp only [cooOf, Coo.mk.injEq]
  exact ⟨hp.hx, hp.hy, hp.hz, trivial, trivial⟩

/-- **`contains_convex` without the hypothesis on the meridian of `p`**: also for the points whose meridian passes
    through a vertex (the case of the bug fixed in release 0.3.0 of the crate) -/
theorem contains_convex_any_lon (poly : Polygon ℝ) (hb : poly.Built) (o : ℝ) (h : ConvexNoPole o poly.vertices)
    (p : Coo ℝ) (hp : p.Valid) (hpn : p.NonPole) (hgc : ∀ e ∈ edges poly.vertices, dot p (cross e.1 e.2) ≠ 0) :
    poly.contains p = true ↔ ∀ e ∈ edges poly.vertices, 0 < o * dot p (cross e.1 e.2) := by
  have ho0 : o ≠ 0 := by rcases h.ho with h | h <;> rw [h] <;> norm_num
  refine contains_convex_transfer poly hb o p hp hgc ho0 1 0
    (fun p' => p'.Valid ∧ p'.NonPole ∧ ∀ v ∈ poly.vertices, p'.lon ≠ v.lon) ?_ ?_ ?_
  · apply eventually_forall_mem_list
    intro e _
    filter_upwards [eventually_compare e.1.lon p.lon, eventually_compare e.2.lon p.lon] with ε h1 h2
    rw [one_mul]
    exact lonRange_congr _ _ _ _ h1.1 h2.1
  · have hgenl : ∀ᶠ ε in 𝓝[>] (0 : ℝ), ∀ v ∈ poly.vertices, p.lon + ε ≠ v.lon :=
      eventually_forall_mem_list _ _ _ (fun v _ => (eventually_compare v.lon p.lon).mono (fun ε h => h.2))
    filter_upwards [eventually_small (2 * π - p.lon) (by linarith [hp.lon1]), hgenl] with ε h1 h2
    refine ⟨?_, ?_, ?_⟩
    · apply cooOf_valid <;> simp only [one_mul, zero_mul, add_zero]
      · linarith [hp.lon0]
      · linarith
      · exact hp.lat0
      · exact hp.lat1
    · unfold Coo.NonPole; rw [pert_lat, zero_mul, add_zero]; exact hpn
    · intro v hv; rw [pert_lon, one_mul]; exact h2 v hv
  · rintro p' ⟨q1, q2, q3⟩ hg
    exact contains_convex poly hb o h p' q1 q2 q3
      (fun hall e he => lt_of_le_of_ne (hall e he) (Ne.symm (mul_ne_zero ho0 (hg e he))))

/-- **`Polygon::contains` on convex polygons, final form.**  For a polygon as built by `Polygon::new` from a strictly
    convex list of at least 3 vertices (either winding), contained in an open hemisphere, with neither pole in the closed
    polygon, and EVERY point `p` of the sphere (poles and vertex meridians included) that is on no edge's great circle:
    `contains p = true` iff `p` is strictly inside all the half-spaces of the edges. -/
theorem contains_convex_all (poly : Polygon ℝ) (hb : poly.Built) (o : ℝ) (h : ConvexNoPole o poly.vertices)
    (p : Coo ℝ) (hp : p.Valid) (hgc : ∀ e ∈ edges poly.vertices, dot p (cross e.1 e.2) ≠ 0) :
    poly.contains p = true ↔ ∀ e ∈ edges poly.vertices, 0 < o * dot p (cross e.1 e.2) := by
  have hpi := pi_pos
  have ho0 : o ≠ 0 := by rcases h.ho with h | h <;> rw [h] <;> norm_num
  by_cases hn : p.lat = π / 2
  · -- north pole: move south
    refine contains_convex_transfer poly hb o p hp hgc ho0 0 (-1) (fun p' => p'.Valid ∧ p'.NonPole) ?_ ?_ ?_
    · exact Eventually.of_forall (fun ε e _ => by rw [zero_mul, add_zero])
    · filter_upwards [eventually_small π hpi] with ε h1
      constructor
      · apply cooOf_valid <;> simp only [zero_mul, add_zero]
        · exact hp.lon0
        · exact hp.lon1
        · rw [hn]; linarith
        · rw [hn]; linarith
      · unfold Coo.NonPole; rw [pert_lat, hn]; constructor <;> linarith
    · rintro p' ⟨q1, q2⟩ hg
      exact contains_convex_any_lon poly hb o h p' q1 q2 hg
  · by_cases hs : p.lat = -(π / 2)
    · refine contains_convex_transfer poly hb o p hp hgc ho0 0 1 (fun p' => p'.Valid ∧ p'.NonPole) ?_ ?_ ?_
      · exact Eventually.of_forall (fun ε e _ => by rw [zero_mul, add_zero])
      · filter_upwards [eventually_small π hpi] with ε h1
        constructor
        · apply cooOf_valid <;> simp only [zero_mul, add_zero]
          · exact hp.lon0
          · exact hp.lon1
          · rw [hs]; linarith
          · rw [hs]; linarith
        · unfold Coo.NonPole; rw [pert_lat, hs]; constructor <;> linarith
      · rintro p' ⟨q1, q2⟩ hg
        exact contains_convex_any_lon poly hb o h p' q1 q2 hg
    · exact contains_convex_any_lon poly hb o h p hp
        ⟨lt_of_le_of_ne hp.lat0 (Ne.symm hs), lt_of_le_of_ne hp.lat1 hn⟩ hgc

end Hpx.Sph
