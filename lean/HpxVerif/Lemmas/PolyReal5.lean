/-
Point-in-polygon over the reals (C12), part 5: removal of the genericity hypotheses of `contains_convex` by perturbation.
The tests made by `Polygon::contains` are stable under a small move of the point to the east (the longitude ranges are
closed at their western end and open at their eastern end) and under a small move in latitude (strict sign tests; an edge
whose great circle passes through the point without the point being on the edge has the point outside its longitude
range), so the theorem extends to the points whose meridian passes through a vertex, to the points of the great circles
of the edges (`contains_convex_nonpole`) and to the two poles: `contains_convex_final` holds for EVERY point of the sphere
that is not on the boundary of the polygon.
-/
import HpxVerif.Lemmas.PolyReal4
import Mathlib.Topology.Order.LeftRightNhds
import Mathlib.Topology.Algebra.Order.Field
import Mathlib.Analysis.SpecialFunctions.Trigonometric.Deriv

namespace Hpx.Sph
open Real Hpx.Proj Filter Topology

theorem eventually_forall_mem_list {α β : Type} (l : List α) (f : Filter β) (P : α → β → Prop)
    (h : ∀ a ∈ l, ∀ᶠ x in f, P a x) : ∀ᶠ x in f, ∀ a ∈ l, P a x := by
  induction l with
  | nil => exact Eventually.of_forall (fun x a ha => by simp at ha)
  | cons a l ih =>
    have h1 := h a (by simp)
    have h2 := ih (fun b hb => h b (by simp [hb]))
    filter_upwards [h1, h2] with x hx1 hx2 b hb
    rcases List.mem_cons.mp hb with rfl | hb
    · exact hx1
    · exact hx2 b hb

theorem eventually_small (δ : ℝ) (hδ : 0 < δ) : ∀ᶠ ε in 𝓝[>] (0 : ℝ), 0 < ε ∧ ε < δ :=
  Ioo_mem_nhdsGT hδ

/-- a comparison with a constant does not change when the longitude moves a little to the east -/
theorem eventually_compare (c l : ℝ) : ∀ᶠ ε in 𝓝[>] (0 : ℝ), (c ≤ l + ε ↔ c ≤ l) ∧ l + ε ≠ c := by
  by_cases h : c ≤ l
  · filter_upwards [eventually_small 1 one_pos] with ε hε
    exact ⟨⟨fun _ => h, fun _ => by linarith⟩, by linarith⟩
  · have h' : l < c := not_le.mp h
    filter_upwards [eventually_small (c - l) (by linarith)] with ε hε
    exact ⟨⟨fun h1 => by linarith, fun h1 => by linarith⟩, by linarith⟩

theorem lonRange_congr (a b l l' : ℝ) (ha : a ≤ l' ↔ a ≤ l) (hb : b ≤ l' ↔ b ≤ l) : LonRange a b l' ↔ LonRange a b l := by
  unfold LonRange
  simp only [min_le_iff, max_le_iff, ← not_le, ha, hb]

/-- the point moved by `a ε` in longitude and `b ε` in latitude -/
noncomputable def pert (p : Coo ℝ) (a b ε : ℝ) : Coo ℝ := cooOf (p.lon + a * ε, p.lat + b * ε)

theorem dot_pert_tendsto {p : Coo ℝ} (hp : p.Valid) (a b c : ℝ) (N : ℝ × ℝ × ℝ) :
    Tendsto (fun ε => c * dot (pert p a b ε) N) (𝓝 0) (𝓝 (c * dot p N)) := by
  have hc : Continuous fun ε : ℝ => c * (cos (p.lat + b * ε) * cos (p.lon + a * ε) * N.1 +
      cos (p.lat + b * ε) * sin (p.lon + a * ε) * N.2.1 + sin (p.lat + b * ε) * N.2.2) := by fun_prop
  have := hc.tendsto 0
  simp only [mul_zero, add_zero] at this
  have e : c * dot p N = c * (cos p.lat * cos p.lon * N.1 + cos p.lat * sin p.lon * N.2.1 + sin p.lat * N.2.2) := by
    unfold dot; rw [hp.hx, hp.hy, hp.hz]
  rw [e]
  exact this

/-- a non-zero scalar product keeps its sign -/
theorem sign_stable {p : Coo ℝ} (hp : p.Valid) (a b c : ℝ) (N : ℝ × ℝ × ℝ) (h : c * dot p N ≠ 0) :
    ∀ᶠ ε in 𝓝[>] (0 : ℝ), (0 < c * dot (pert p a b ε) N ↔ 0 < c * dot p N) ∧ c * dot (pert p a b ε) N ≠ 0 := by
  have ht := (dot_pert_tendsto hp a b c N).mono_left (nhdsWithin_le_nhds (s := Set.Ioi 0))
  rcases lt_or_gt_of_ne h with hneg | hpos
  · filter_upwards [ht.eventually_lt_const hneg] with ε hε
    exact ⟨⟨fun h1 => by linarith, fun h1 => by linarith⟩, hε.ne⟩
  · filter_upwards [ht.eventually_const_lt hpos] with ε hε
    exact ⟨⟨fun _ => hpos, fun _ => hε⟩, hε.ne'⟩

theorem dot_npCross_ne {p u w : Coo ℝ} (h : dot p (cross u w) ≠ 0) : (1 : ℝ) * dot p (npCross u w) ≠ 0 := by
  rw [one_mul]
  unfold npCross
  split
  · intro h0; apply h
    unfold dot at h0 ⊢
    simp only at h0
    linarith
  · exact h

/-- `contains` only depends on the tests made on the edges -/
theorem contains_congr (poly : Polygon ℝ) (hb : poly.Built) (p p' : Coo ℝ)
    (h : ∀ e ∈ edges poly.vertices,
      (isInLonRange p e.1 e.2 && Num.gt (dot p (npCross e.1 e.2)) (Num.zero : ℝ)) =
      (isInLonRange p' e.1 e.2 && Num.gt (dot p' (npCross e.1 e.2)) (Num.zero : ℝ))) :
    poly.contains p = poly.contains p' := by
  unfold Polygon.contains
  congr 1
  unfold oddNumIntersectGoingSouth
  rw [hb.cps]
  unfold edges at h ⊢
  cases hl : poly.vertices.getLast? with
  | none => rfl
  | some last =>
    simp only [hl] at h ⊢
    rw [odd_go_eq, odd_go_eq]
    congr 2
    apply List.countP_congr
    intro e he
    rw [h e he]

theorem pert_lon (p : Coo ℝ) (a b ε : ℝ) : (pert p a b ε).lon = p.lon + a * ε := rfl
theorem pert_lat (p : Coo ℝ) (a b ε : ℝ) : (pert p a b ε).lat = p.lat + b * ε := rfl

/-- transfer of the theorem from a class `Q` of points to a point all of whose small perturbations are in `Q`.
    Each edge either has `p` off its great circle (the sign tests are stable) or has `p` outside its longitude range
    (the test is `false` before and after); if `p` is on some great circle then it is strictly outside some half-space. -/
theorem contains_convex_transfer (poly : Polygon ℝ) (hb : poly.Built) (o : ℝ) (p : Coo ℝ) (hp : p.Valid)
    (ho : o ≠ 0) (a b : ℝ) (Q : Coo ℝ → Prop)
    (hedge : ∀ e ∈ edges poly.vertices, dot p (cross e.1 e.2) ≠ 0 ∨ ¬ LonRange e.1.lon e.2.lon p.lon)
    (hout : (∃ e ∈ edges poly.vertices, dot p (cross e.1 e.2) = 0) →
      ∃ e' ∈ edges poly.vertices, o * dot p (cross e'.1 e'.2) < 0)
    (hlon : ∀ᶠ ε in 𝓝[>] (0 : ℝ), ∀ e ∈ edges poly.vertices,
      (LonRange e.1.lon e.2.lon (p.lon + a * ε) ↔ LonRange e.1.lon e.2.lon p.lon))
    (hQ : ∀ᶠ ε in 𝓝[>] (0 : ℝ), Q (pert p a b ε))
    (known : ∀ p', Q p' →
      ((∀ e ∈ edges poly.vertices, 0 ≤ o * dot p' (cross e.1 e.2)) → ∀ e ∈ edges poly.vertices, 0 < o * dot p' (cross e.1 e.2)) →
      (poly.contains p' = true ↔ ∀ e ∈ edges poly.vertices, 0 < o * dot p' (cross e.1 e.2))) :
    poly.contains p = true ↔ ∀ e ∈ edges poly.vertices, 0 < o * dot p (cross e.1 e.2) := by
  have s1 : ∀ᶠ ε in 𝓝[>] (0 : ℝ), ∀ e ∈ edges poly.vertices, dot p (cross e.1 e.2) ≠ 0 →
      ((0 < 1 * dot (pert p a b ε) (npCross e.1 e.2) ↔ 0 < 1 * dot p (npCross e.1 e.2)) ∧
        1 * dot (pert p a b ε) (npCross e.1 e.2) ≠ 0) := by
    apply eventually_forall_mem_list
    intro e _
    by_cases hne : dot p (cross e.1 e.2) ≠ 0
    · exact (sign_stable hp a b 1 _ (dot_npCross_ne hne)).mono (fun ε h _ => h)
    · exact Eventually.of_forall (fun ε h => absurd h hne)
  have s2 : ∀ᶠ ε in 𝓝[>] (0 : ℝ), ∀ e ∈ edges poly.vertices, dot p (cross e.1 e.2) ≠ 0 →
      ((0 < o * dot (pert p a b ε) (cross e.1 e.2) ↔ 0 < o * dot p (cross e.1 e.2)) ∧
        o * dot (pert p a b ε) (cross e.1 e.2) ≠ 0) := by
    apply eventually_forall_mem_list
    intro e _
    by_cases hne : dot p (cross e.1 e.2) ≠ 0
    · exact (sign_stable hp a b o _ (mul_ne_zero ho hne)).mono (fun ε h _ => h)
    · exact Eventually.of_forall (fun ε h => absurd h hne)
  obtain ⟨ε, h1, h2, h3, h4⟩ := (hlon.and (hQ.and (s1.and s2))).exists
  have hc : poly.contains p = poly.contains (pert p a b ε) := by
    apply contains_congr poly hb
    intro e he
    rcases hedge e he with hne | hnr
    · congr 1
      · rw [Bool.eq_iff_iff, is_in_lon_range_spec, is_in_lon_range_spec, pert_lon]
        exact (h1 e he).symm
      · rw [r_gt, r_gt, r_zero, decide_eq_decide]
        have := (h3 e he hne).1
        rw [one_mul, one_mul] at this
        exact this.symm
    · have f1 : isInLonRange p e.1 e.2 = false := by
        rw [← Bool.not_eq_true, is_in_lon_range_spec]; exact hnr
      have f2 : isInLonRange (pert p a b ε) e.1 e.2 = false := by
        rw [← Bool.not_eq_true, is_in_lon_range_spec, pert_lon, h1 e he]; exact hnr
      rw [f1, f2, Bool.false_and, Bool.false_and]
  rw [hc]
  by_cases hJ : ∃ e ∈ edges poly.vertices, dot p (cross e.1 e.2) = 0
  · -- both sides are false
    obtain ⟨e', he', hneg⟩ := hout hJ
    have hne' : dot p (cross e'.1 e'.2) ≠ 0 := by
      intro h0; rw [h0, mul_zero] at hneg; exact lt_irrefl _ hneg
    have hneg' : o * dot (pert p a b ε) (cross e'.1 e'.2) < 0 := by
      have := h4 e' he' hne'
      rcases lt_or_gt_of_ne this.2 with g | g
      · exact g
      · have := this.1.mp g; linarith
    rw [known _ h2 (fun hall => absurd (hall e' he') (not_le.mpr hneg'))]
    obtain ⟨e, he, h0⟩ := hJ
    constructor
    · intro h; have := h e' he'; linarith
    · intro h; have := h e he; rw [h0, mul_zero] at this; exact absurd this (lt_irrefl _)
  · push Not at hJ
    rw [known _ h2 (fun hall e he => lt_of_le_of_ne (hall e he) (Ne.symm (h4 e he (hJ e he)).2))]
    constructor
    · intro h e he; exact (h4 e he (hJ e he)).1.mp (h e he)
    · intro h e he; exact (h4 e he (hJ e he)).1.mpr (h e he)

theorem valid_eq_cooOf {p : Coo ℝ} (hp : p.Valid) : p = cooOf (p.lon, p.lat) := by
  cases p
  simp only [cooOf, Coo.mk.injEq]
  exact ⟨hp.hx, hp.hy, hp.hz, trivial, trivial⟩

/-- a point of the closed arc of an edge on the meridian `l`, when `l` is in the longitude range of the edge -/
theorem lonRange_closed_point {u w : Coo ℝ} (hu : u.Valid) (hw : w.Valid) (hun : u.NonPole) (hwn : w.NonPole)
    (l : ℝ) (hl0 : 0 ≤ l) (hl1 : l < 2 * π) (hR : LonRange u.lon w.lon l) (hs : sin (w.lon - u.lon) ≠ 0) :
    ∃ s t ρ : ℝ, 0 ≤ s ∧ 0 ≤ t ∧ 0 < ρ ∧ s * u.x + t * w.x = ρ * cos l ∧ s * u.y + t * w.y = ρ * sin l := by
  by_cases h1 : l = u.lon
  · exact ⟨1, 0, cos u.lat, zero_le_one, le_refl _, hun.cos_pos, by rw [hu.hx, h1]; ring, by rw [hu.hy, h1]; ring⟩
  · by_cases h2 : l = w.lon
    · exact ⟨0, 1, cos w.lat, le_refl _, zero_le_one, hwn.cos_pos, by rw [hw.hx, h2]; ring, by rw [hw.hy, h2]; ring⟩
    · obtain ⟨β, hβ1, hβ2, s, t, ρ, hs', ht', hρ, ex, ey, _⟩ :=
        (lonRange_iff_arcMeets hu hw hun hwn l hl0 hl1 h1 h2).mp ⟨hR, hs⟩
      have hc : 0 < cos β := cos_pos_of_mem_Ioo ⟨hβ1, hβ2⟩
      exact ⟨s, t, ρ * cos β, hs'.le, ht'.le, by positivity, by rw [ex]; ring, by rw [ey]; ring⟩

/-- a point (not a pole) of an edge's great circle whose longitude is in the range of that edge is in the closed polygon -/
theorem closed_of_lonRange_of_dot_zero {o : ℝ} {vs : List (Coo ℝ)} (h : ConvexNoPole o vs) (p : Coo ℝ) (hp : p.Valid)
    (hpn : p.NonPole) (e : Coo ℝ × Coo ℝ) (he : e ∈ edges vs) (h0 : dot p (cross e.1 e.2) = 0)
    (hR : LonRange e.1.lon e.2.lon p.lon) : ∀ e' ∈ edges vs, 0 ≤ o * dot p (cross e'.1 e'.2) := by
  have hpi := pi_pos
  have hm := mem_edges he
  obtain ⟨hu, hun⟩ := h.hv e.1 hm.1
  obtain ⟨hw, hwn⟩ := h.hv e.2 hm.2
  have hcp := hpn.cos_pos
  -- the edge is not along a meridian
  have hs : sin (e.2.lon - e.1.lon) ≠ 0 := by
    intro hs0
    by_cases hab : e.2.lon - e.1.lon = 0
    · have : e.2.lon = e.1.lon := by linarith
      rw [this] at hR; exact lonRange_self _ _ hR
    · have hc := sin_eq_zero_cos (x := e.2.lon - e.1.lon) (by linarith [hu.lon1, hw.lon0]) (by linarith [hu.lon0, hw.lon1])
        hs0 hab
      have P := sin_pos_iff_of_abs_lt (e.2.lon - e.1.lon) (by linarith [hu.lon1, hw.lon0]) (by linarith [hu.lon0, hw.lon1])
      have N := sin_neg_iff_of_abs_lt (e.2.lon - e.1.lon) (by linarith [hu.lon1, hw.lon0]) (by linarith [hu.lon0, hw.lon1])
      apply h.no_opposite e he
      rcases lt_trichotomy (e.2.lon - e.1.lon) 0 with g | g | g
      · rw [abs_of_neg g]
        rcases lt_trichotomy (e.2.lon - e.1.lon) (-π) with g2 | g2 | g2
        · have := P.mpr (Or.inr g2); linarith
        · linarith
        · have := N.mpr (Or.inl ⟨g2, g⟩); linarith
      · exact absurd g hab
      · rw [abs_of_pos g]
        rcases lt_trichotomy (e.2.lon - e.1.lon) π with g2 | g2 | g2
        · have := P.mpr (Or.inl ⟨g, g2⟩); linarith
        · exact g2
        · have := N.mpr (Or.inr g2); linarith
  have hz : (cross e.1 e.2).2.2 ≠ 0 := by
    rw [cross_z_eq hu hw]; exact mul_ne_zero (mul_ne_zero hun.cos_pos.ne' hwn.cos_pos.ne') hs
  obtain ⟨s, t, ρ, hs0, ht0, hρ, ex, ey⟩ := lonRange_closed_point hu hw hun hwn p.lon hp.lon0 hp.lon1 hR hs
  -- the arc point and `p` are the same direction
  have hqz : cos p.lat * (s * e.1.z + t * e.2.z) = ρ * sin p.lat := by
    have hq : (cross e.1 e.2).1 * (ρ * cos p.lon) + (cross e.1 e.2).2.1 * (ρ * sin p.lon) +
        (cross e.1 e.2).2.2 * (s * e.1.z + t * e.2.z) = 0 := by
      rw [← ex, ← ey]; unfold cross; ring
    have hp0 : cos p.lat * cos p.lon * (cross e.1 e.2).1 + cos p.lat * sin p.lon * (cross e.1 e.2).2.1 +
        sin p.lat * (cross e.1 e.2).2.2 = 0 := by
      have := h0; unfold dot at this; rw [hp.hx, hp.hy, hp.hz] at this; exact this
    have : (cross e.1 e.2).2.2 * (cos p.lat * (s * e.1.z + t * e.2.z) - ρ * sin p.lat) = 0 := by
      linear_combination cos p.lat * hq - ρ * hp0
    rcases mul_eq_zero.mp this with g | g
    · exact absurd g hz
    · linarith
  intro e' he'
  have key : ρ * (o * dot p (cross e'.1 e'.2)) =
      cos p.lat * (s * (o * dot e.1 (cross e'.1 e'.2)) + t * (o * dot e.2 (cross e'.1 e'.2))) := by
    unfold dot
    rw [hp.hx, hp.hy, hp.hz]
    linear_combination (-(o * cos p.lat * (cross e'.1 e'.2).1)) * ex - (o * cos p.lat * (cross e'.1 e'.2).2.1) * ey -
      (o * (cross e'.1 e'.2).2.2) * hqz
  have c1 := h.vertex_edge e.1 hm.1 e' he'
  have c2 := h.vertex_edge e.2 hm.2 e' he'
  have : 0 ≤ ρ * (o * dot p (cross e'.1 e'.2)) := by
    rw [key]
    exact mul_nonneg hcp.le (add_nonneg (mul_nonneg hs0 c1) (mul_nonneg ht0 c2))
  exact (mul_nonneg_iff_of_pos_left hρ).mp this

/-- if `p` is on a great circle but not on the boundary, it is strictly outside some half-space -/
theorem out_of_not_boundary {o : ℝ} {E : List (Coo ℝ × Coo ℝ)} (p : Coo ℝ)
    (hnb : (∀ e ∈ E, 0 ≤ o * dot p (cross e.1 e.2)) → ∀ e ∈ E, 0 < o * dot p (cross e.1 e.2))
    (hJ : ∃ e ∈ E, dot p (cross e.1 e.2) = 0) : ∃ e' ∈ E, o * dot p (cross e'.1 e'.2) < 0 := by
  by_contra hcon
  push Not at hcon
  obtain ⟨e, he, h0⟩ := hJ
  have := hnb hcon e he
  rw [h0, mul_zero] at this
  exact lt_irrefl _ this

/-- **`contains_convex` for every point that is not a pole**: also for the points whose meridian passes through a vertex
    (the case of the bug fixed in release 0.3.0 of the crate) and the points of the great circles of the edges, provided
    `p` is not on the boundary of the polygon -/
theorem contains_convex_nonpole (poly : Polygon ℝ) (hb : poly.Built) (o : ℝ) (h : ConvexNoPole o poly.vertices)
    (p : Coo ℝ) (hp : p.Valid) (hpn : p.NonPole)
    (hnb : (∀ e ∈ edges poly.vertices, 0 ≤ o * dot p (cross e.1 e.2)) →
      ∀ e ∈ edges poly.vertices, 0 < o * dot p (cross e.1 e.2)) :
    poly.contains p = true ↔ ∀ e ∈ edges poly.vertices, 0 < o * dot p (cross e.1 e.2) := by
  have ho0 : o ≠ 0 := by rcases h.ho with h | h <;> rw [h] <;> norm_num
  refine contains_convex_transfer poly hb o p hp ho0 1 0
    (fun p' => p'.Valid ∧ p'.NonPole ∧ ∀ v ∈ poly.vertices, p'.lon ≠ v.lon) ?_ (out_of_not_boundary p hnb) ?_ ?_ ?_
  · intro e he
    by_cases h0 : dot p (cross e.1 e.2) = 0
    · right
      intro hR
      have := hnb (closed_of_lonRange_of_dot_zero h p hp hpn e he h0 hR) e he
      rw [h0, mul_zero] at this
      exact lt_irrefl _ this
    · exact Or.inl h0
  · apply eventually_forall_mem_list
    intro e _
    filter_upwards [eventually_compare e.1.lon p.lon, eventually_compare e.2.lon p.lon] with ε h1 h2
    rw [one_mul]
    exact lonRange_congr _ _ _ _ h1.1 h2.1
  · have hgenl : ∀ᶠ ε in 𝓝[>] (0 : ℝ), ∀ v ∈ poly.vertices, p.lon + ε ≠ v.lon :=
      eventually_forall_mem_list _ _ _ (fun v _ => (eventually_compare v.lon p.lon).mono (fun ε h => h.2))
    filter_upwards [eventually_small (2 * π - p.lon) (by linarith [hp.lon1]), hgenl] with ε h1 h2
    refine ⟨?_, ?_, ?_⟩
    · apply cooOf_valid <;> simp only [one_mul, zero_mul, add_zero]
      · linarith [hp.lon0]
      · linarith
      · exact hp.lat0
      · exact hp.lat1
    · unfold Coo.NonPole; rw [pert_lat, zero_mul, add_zero]; exact hpn
    · intro v hv; rw [pert_lon, one_mul]; exact h2 v hv
  · rintro p' ⟨q1, q2, q3⟩ hg
    exact contains_convex poly hb o h p' q1 q2 q3 hg

/-- at a pole, an edge whose great circle passes through the pole is along a meridian: its longitude range is empty -/
theorem not_lonRange_of_z_zero {o : ℝ} {vs : List (Coo ℝ)} (h : ConvexNoPole o vs) (e : Coo ℝ × Coo ℝ) (he : e ∈ edges vs)
    (hz : (cross e.1 e.2).2.2 = 0) (l : ℝ) : ¬ LonRange e.1.lon e.2.lon l := by
  have hpi := pi_pos
  have hm := mem_edges he
  obtain ⟨hu, hun⟩ := h.hv e.1 hm.1
  obtain ⟨hw, hwn⟩ := h.hv e.2 hm.2
  rw [cross_z_eq hu hw] at hz
  have hs0 : sin (e.2.lon - e.1.lon) = 0 := by
    rcases mul_eq_zero.mp hz with g | g
    · rcases mul_eq_zero.mp g with g' | g'
      · exact absurd g' hun.cos_pos.ne'
      · exact absurd g' hwn.cos_pos.ne'
    · exact g
  by_cases hab : e.2.lon - e.1.lon = 0
  · have : e.2.lon = e.1.lon := by linarith
    rw [this]; exact lonRange_self _ _
  · exfalso
    have P := sin_pos_iff_of_abs_lt (e.2.lon - e.1.lon) (by linarith [hu.lon1, hw.lon0]) (by linarith [hu.lon0, hw.lon1])
    have N := sin_neg_iff_of_abs_lt (e.2.lon - e.1.lon) (by linarith [hu.lon1, hw.lon0]) (by linarith [hu.lon0, hw.lon1])
    apply h.no_opposite e he
    rcases lt_trichotomy (e.2.lon - e.1.lon) 0 with g | g | g
    · rw [abs_of_neg g]
      rcases lt_trichotomy (e.2.lon - e.1.lon) (-π) with g2 | g2 | g2
      · have := P.mpr (Or.inr g2); linarith
      · linarith
      · have := N.mpr (Or.inl ⟨g2, g⟩); linarith
    · exact absurd g hab
    · rw [abs_of_pos g]
      rcases lt_trichotomy (e.2.lon - e.1.lon) π with g2 | g2 | g2
      · have := P.mpr (Or.inl ⟨g, g2⟩); linarith
      · exact g2
      · have := N.mpr (Or.inr g2); linarith

/-- **`Polygon::contains` on convex polygons, final form.**  For a polygon as built by `Polygon::new` from a strictly
    convex list of at least 3 vertices (either winding), contained in an open hemisphere, with neither pole in the closed
    polygon, and EVERY point `p` of the sphere (poles, vertex meridians, great circles of the edges included) that is
    not on the boundary of the polygon (`hnb`: if `p` is in all the closed half-spaces then it is in all the open ones):
    `contains p = true` iff `p` is strictly inside all the half-spaces of the edges. -/
theorem contains_convex_final (poly : Polygon ℝ) (hb : poly.Built) (o : ℝ) (h : ConvexNoPole o poly.vertices)
    (p : Coo ℝ) (hp : p.Valid)
    (hnb : (∀ e ∈ edges poly.vertices, 0 ≤ o * dot p (cross e.1 e.2)) →
      ∀ e ∈ edges poly.vertices, 0 < o * dot p (cross e.1 e.2)) :
    poly.contains p = true ↔ ∀ e ∈ edges poly.vertices, 0 < o * dot p (cross e.1 e.2) := by
  have hpi := pi_pos
  have ho0 : o ≠ 0 := by rcases h.ho with h | h <;> rw [h] <;> norm_num
  -- at a pole, `p · N = ± N.z`
  have hpole : p.lat = π / 2 ∨ p.lat = -(π / 2) → ∀ e ∈ edges poly.vertices,
      dot p (cross e.1 e.2) ≠ 0 ∨ ¬ LonRange e.1.lon e.2.lon p.lon := by
    intro hlat e he
    by_cases h0 : dot p (cross e.1 e.2) = 0
    · right
      apply not_lonRange_of_z_zero h e he
      unfold dot at h0
      rw [hp.hx, hp.hy, hp.hz] at h0
      rcases hlat with g | g
      · rw [g, cos_pi_div_two, sin_pi_div_two] at h0; linarith
      · rw [g, cos_neg, sin_neg, cos_pi_div_two, sin_pi_div_two] at h0; linarith
    · exact Or.inl h0
  by_cases hn : p.lat = π / 2
  · -- north pole: move south
    refine contains_convex_transfer poly hb o p hp ho0 0 (-1) (fun p' => p'.Valid ∧ p'.NonPole) (hpole (Or.inl hn))
      (out_of_not_boundary p hnb) ?_ ?_ ?_
    · exact Eventually.of_forall (fun ε e _ => by rw [zero_mul, add_zero])
    · filter_upwards [eventually_small π hpi] with ε h1
      constructor
      · apply cooOf_valid <;> simp only [zero_mul, add_zero]
        · exact hp.lon0
        · exact hp.lon1
        · rw [hn]; linarith
        · rw [hn]; linarith
      · unfold Coo.NonPole; rw [pert_lat, hn]; constructor <;> linarith
    · rintro p' ⟨q1, q2⟩ hg
      exact contains_convex_nonpole poly hb o h p' q1 q2 hg
  · by_cases hs : p.lat = -(π / 2)
    · refine contains_convex_transfer poly hb o p hp ho0 0 1 (fun p' => p'.Valid ∧ p'.NonPole) (hpole (Or.inr hs))
        (out_of_not_boundary p hnb) ?_ ?_ ?_
      · exact Eventually.of_forall (fun ε e _ => by rw [zero_mul, add_zero])
      · filter_upwards [eventually_small π hpi] with ε h1
        constructor
        · apply cooOf_valid <;> simp only [zero_mul, add_zero]
          · exact hp.lon0
          · exact hp.lon1
          · rw [hs]; linarith
          · rw [hs]; linarith
        · unfold Coo.NonPole; rw [pert_lat, hs]; constructor <;> linarith
      · rintro p' ⟨q1, q2⟩ hg
        exact contains_convex_nonpole poly hb o h p' q1 q2 hg
    · exact contains_convex_nonpole poly hb o h p hp
        ⟨lt_of_le_of_ne hp.lat0 (Ne.symm hs), lt_of_le_of_ne hp.lat1 hn⟩ hnb

/-- corollary: every point that is on no edge's great circle -/
theorem contains_convex_all (poly : Polygon ℝ) (hb : poly.Built) (o : ℝ) (h : ConvexNoPole o poly.vertices)
    (p : Coo ℝ) (hp : p.Valid) (hgc : ∀ e ∈ edges poly.vertices, dot p (cross e.1 e.2) ≠ 0) :
    poly.contains p = true ↔ ∀ e ∈ edges poly.vertices, 0 < o * dot p (cross e.1 e.2) := by
  have ho0 : o ≠ 0 := by rcases h.ho with h | h <;> rw [h] <;> norm_num
  exact contains_convex_final poly hb o h p hp
    (fun hall e he => lt_of_le_of_ne (hall e he) (Ne.symm (mul_ne_zero ho0 (hgc e he))))

/-- the final form on the value returned by `Polygon::new` for positions in the canonical ranges -/
theorem contains_convex_final_new (dbg : Bool) (lls : List (ℝ × ℝ))
    (hr : ∀ ll ∈ lls, 0 ≤ ll.1 ∧ ll.1 < 2 * π ∧ -(π / 2) ≤ ll.2 ∧ ll.2 ≤ π / 2)
    (o : ℝ) (h : ConvexNoPole o (lls.map cooOf)) (p : Coo ℝ) (hp : p.Valid)
    (hnb : (∀ e ∈ edges (lls.map cooOf), 0 ≤ o * dot p (cross e.1 e.2)) →
      ∀ e ∈ edges (lls.map cooOf), 0 < o * dot p (cross e.1 e.2)) :
    ∃ poly, Polygon.new dbg lls = some poly ∧
      (poly.contains p = true ↔ ∀ e ∈ edges (lls.map cooOf), 0 < o * dot p (cross e.1 e.2)) := by
  have hne : lls ≠ [] := by
    intro h0; have := h.hn; rw [h0] at this; simp at this
  obtain ⟨poly, hnew, hvs, hb⟩ := polygon_new_real dbg lls hne hr
  refine ⟨poly, hnew, ?_⟩
  rw [← hvs] at h hnb ⊢
  exact contains_convex_final poly hb o h p hp hnb

end Hpx.Sph
