import HpxVerif.Lemmas.EnvelopeReal2
import HpxVerif.Lemmas.CellReal

/-!
# C16 — end to end on the cells of the NESTED scheme, over ℝ (part 3)

For every depth `1 ≤ d ≤ 29` and every valid cell `(b, i, j)` whose centre lies strictly inside the equatorial band
(`|cellCy| < 1`, i.e. `|lat| < TRANSITION_LATITUDE`: the centre ordinate is a multiple of `1/n`, hence `|cellCy| ≤ 1 − 1/n`
and the four vertices are in the closed equatorial region), the value returned by
`largest_center_to_vertex_distance(d, lon, lat)` at the position `(lon, lat) = center(d, hash)` returned by the crate is at
least the angular distance from that centre to each of the four positions returned by `vertices(d, hash)`:
**`largestC2V_dominates_cell`**.  `cell_true_c2v` gives the four distances exactly.
-/

namespace Hpx.EnvelopeReal
open Hpx Hpx.Hash Hpx.C2V Hpx.Cover Hpx.CellReal

/-- the centre ordinate of a cell is a multiple of `1/n`: strictly inside the band means at least `1/n` inside -/
theorem cellCy_band (d b i j : ℕ) (h : |cellCy d b i j| < 1) : |cellCy d b i j| + 1 / 2 ^ d ≤ 1 := by
  obtain ⟨_, k2⟩ := centerXY_real d b i j
  have hp := pow_pos' d
  set Z : ℤ := (Layer.centerXY d ⟨b, i, j⟩).2 with hZ
  have hy : cellCy d b i j = (Z : ℝ) / 2 ^ d := by rw [k2]; field_simp
  rw [hy, abs_div, abs_of_pos hp] at h ⊢
  rw [div_lt_one hp] at h
  have h2 : |Z| < 2 ^ d := by
    have : ((|Z| : ℤ) : ℝ) < ((2 ^ d : ℤ) : ℝ) := by push_cast; exact h
    exact_mod_cast this
  have h3 : |Z| + 1 ≤ 2 ^ d := by omega
  have h4 : |(Z : ℝ)| + 1 ≤ 2 ^ d := by
    have : ((|Z| + 1 : ℤ) : ℝ) ≤ ((2 ^ d : ℤ) : ℝ) := by exact_mod_cast h3
    push_cast at this; exact this
  rw [← add_div, div_le_one hp]
  exact h4

theorem westX_eq (d b i j : ℕ) (hb : b < 12) (hi : i < 2 ^ d) (hj : j < 2 ^ d) :
    norm8 (cellCx d b i j - 1 / 2 ^ d) = westX (norm8 (cellCx d b i j)) (1 / 2 ^ d) := by
  obtain ⟨c1, c2, c3, c4, c5⟩ := center_ranges d b i j hb hi hj
  have ho : 0 < 1 / (2 : ℝ) ^ d := by positivity
  have := norm8_norm8_add (cellCx d b i j) (-(1 / 2 ^ d)) (fun h => by
    have := cellCx_neg_le d b i j hb hi hj h
    constructor <;> linarith)
  rw [sub_eq_add_neg, ← this, ← sub_eq_add_neg]
  unfold westX
  rfl

/-- **the true distances of a cell**: for a valid cell of depth `d` with `|cellCy| < 1`, `center` and `vertices` succeed
    and the angular distances from the centre to the vertices S, E, N, W are `dS`, `dE`, `dN`, `dE` at `y = cellCy` -/
theorem cell_true_c2v (cfg : Cfg) (d hash b i j : ℕ) (hh : hash < Layer.nHash d)
    (hdec : Layer.decodeHash cfg d hash = some ⟨b, i, j⟩) (hb : b < 12) (hi : i < 2 ^ d) (hj : j < 2 ^ d)
    (hband : |cellCy d b i j| < 1) :
    ∃ c s e n w : ℝ × ℝ, center (α := ℝ) cfg d hash = some c ∧ vertices (α := ℝ) cfg d hash = some [s, e, n, w] ∧
      c.2 = latOf (cellCy d b i j) ∧
      adist c s = dS (1 / 2 ^ d) (cellCy d b i j) ∧ adist c e = dE (1 / 2 ^ d) (cellCy d b i j) ∧
      adist c n = dN (1 / 2 ^ d) (cellCy d b i j) ∧ adist c w = dE (1 / 2 ^ d) (cellCy d b i j) := by
  obtain ⟨n0, n8⟩ := norm8_center_range d b i j hb hi hj
  obtain ⟨hδ0, hδ1⟩ := C2VReal.distCw_range d
  have hy := cellCy_band d b i j hband
  obtain ⟨c, pN, pS, pE, pW, uc, uN, uS, uE, uW, hlat, aN, aS, aE, aW⟩ :=
    true_c2v_eqr (norm8 (cellCx d b i j)) (cellCy d b i j) (1 / 2 ^ d) hδ0 hδ1 n0 (by linarith) hy
  have hyr : -2 ≤ cellCy d b i j ∧ cellCy d b i j ≤ 2 := by
    obtain ⟨y1, y2⟩ := abs_le.mp hband.le
    constructor <;> linarith
  have ec : unprojT (norm8 (cellCx d b i j)) (cellCy d b i j) = c := by
    have := unproj_eq (norm8 (cellCx d b i j)) (cellCy d b i j) hyr.1 hyr.2
    rw [uc] at this; exact (Option.some.inj this).symm
  have eS : unprojT (vtx d b i j 0).1 (vtx d b i j 0).2 = pS := by
    have := unproj_eq (vtx d b i j 0).1 (vtx d b i j 0).2 (vtx_y_range d b i j 0 hb hi hj).1 (vtx_y_range d b i j 0 hb hi hj).2
    simp only [vtx] at this ⊢
    rw [uS] at this; exact (Option.some.inj this).symm
  have eE : unprojT (vtx d b i j 1).1 (vtx d b i j 1).2 = pE := by
    have := unproj_eq (vtx d b i j 1).1 (vtx d b i j 1).2 (vtx_y_range d b i j 1 hb hi hj).1 (vtx_y_range d b i j 1 hb hi hj).2
    simp only [vtx] at this ⊢
    rw [uE] at this; exact (Option.some.inj this).symm
  have eN : unprojT (vtx d b i j 2).1 (vtx d b i j 2).2 = pN := by
    have := unproj_eq (vtx d b i j 2).1 (vtx d b i j 2).2 (vtx_y_range d b i j 2 hb hi hj).1 (vtx_y_range d b i j 2 hb hi hj).2
    simp only [vtx] at this ⊢
    rw [uN] at this; exact (Option.some.inj this).symm
  have eW : unprojT (vtx d b i j 3).1 (vtx d b i j 3).2 = pW := by
    have := unproj_eq (vtx d b i j 3).1 (vtx d b i j 3).2 (vtx_y_range d b i j 3 hb hi hj).1 (vtx_y_range d b i j 3 hb hi hj).2
    simp only [vtx] at this ⊢
    rw [westX_eq d b i j hb hi hj] at this ⊢
    rw [uW] at this; exact (Option.some.inj this).symm
  refine ⟨c, pS, pE, pN, pW, ?_, ?_, hlat, aS, aE, aN, aW⟩
  · rw [center_plane cfg d hash b i j hh hdec hb hi hj, ec]
  · rw [vertices_plane cfg d hash b i j hh hdec hb hi hj, eS, eE, eN, eW]

/-- **`largestC2V_dominates_cell`** (ℝ, release profile, every depth `1 … 29`, every cell whose centre is strictly inside
    the equatorial band): `largest_center_to_vertex_distance(d, lon, lat)` evaluated at `(lon, lat) = center(d, hash)` is
    at least the angular distance from `center(d, hash)` to each of the four `vertices(d, hash)`. -/
theorem largestC2V_dominates_cell (cfg : Cfg) (d hash b i j : ℕ) (hd1 : 1 ≤ d) (hd2 : d ≤ 29) (hh : hash < Layer.nHash d)
    (hdec : Layer.decodeHash cfg d hash = some ⟨b, i, j⟩) (hb : b < 12) (hi : i < 2 ^ d) (hj : j < 2 ^ d)
    (hband : |cellCy d b i j| < 1) :
    ∃ (c s e n w : ℝ × ℝ) (v : ℝ), center (α := ℝ) cfg d hash = some c ∧
      vertices (α := ℝ) cfg d hash = some [s, e, n, w] ∧ largestC2V false d c.1 c.2 = some v ∧
      adist c s ≤ v ∧ adist c e ≤ v ∧ adist c n ≤ v ∧ adist c w ≤ v := by
  obtain ⟨c, s, e, n, w, hc, hv, hlat, aS, aE, aN, aW⟩ := cell_true_c2v cfg d hash b i j hh hdec hb hi hj hband
  obtain ⟨v, hval, bN, bS, bE⟩ :=
    largestC2V_dominates_eqr d hd1 hd2 c.1 (cellCy d b i j) (cellCy_band d b i j hband)
  refine ⟨c, s, e, n, w, v, hc, hv, by rw [hlat]; exact hval, ?_, ?_, ?_, ?_⟩
  · rw [aS]; exact bS
  · rw [aE]; exact bE
  · rw [aN]; exact bN
  · rw [aW]; exact bE

/-! ## example: the hypotheses are satisfiable -/

/-- depth 2, cell 77 = base cell 4, `(i, j) = (3, 2)`: centre ordinate `1/2` -/
example : ∃ (c s e n w : ℝ × ℝ) (v : ℝ), center (α := ℝ) {} 2 77 = some c ∧
      vertices (α := ℝ) {} 2 77 = some [s, e, n, w] ∧ largestC2V false 2 c.1 c.2 = some v ∧
      adist c s ≤ v ∧ adist c e ≤ v ∧ adist c n ≤ v ∧ adist c w ≤ v :=
  largestC2V_dominates_cell {} 2 77 4 3 2 (by decide) (by decide) (by decide) (by decide +kernel) (by decide) (by decide)
    (by decide) (by unfold cellCy baseY; norm_num [abs_lt])

end Hpx.EnvelopeReal

#print axioms Hpx.EnvelopeReal.cell_true_c2v
#print axioms Hpx.EnvelopeReal.largestC2V_dominates_cell
