import HpxVerif.Lemmas.C2VReal
import HpxVerif.Lemmas.ConeReal
import HpxVerif.Lemmas.ProjReal2
import Mathlib.Analysis.Convex.SpecificFunctions.Deriv

/-!
# C16 — the true centre-to-vertex distances of an equatorial cell, over ℝ (part 1)

A cell of depth `d` (`δ = 1/2^d`) whose centre is the plane point `(x, y)` has the vertices
`N = (x, y + δ)`, `S = (x, y − δ)`, `E = (x + δ, y)`, `W = (x − δ, y)` (abscissa modulo 8).
When `|y| + δ ≤ 1` the five points are in the equatorial region, where `unproj (x, y) = (x·π/4, arcsin(2y/3))`.

* `unproj_band`: `unproj` on `0 ≤ x ≤ 8`, `|y| ≤ 1`.
* `adist_same_lon`, `adist_same_lat`: the angular distance (`Hpx.Cover.adist`, the angle of the unit vectors) between two
  positions on the same meridian / the same parallel.
* `dN`, `dS`, `dE`: the closed forms; **`true_c2v_eqr`**: the angular distances from the un-projected centre to the four
  un-projected vertices are `dN`, `dS`, `dE`, `dE`.
* `arcsin_convexOn`, `arcsin_incr_mono`: `arcsin` is convex on `[0, 1]`; its increments over a fixed step increase.
* monotonicity: `dS_le_dN` (`0 ≤ y`), `dN_mono` (increasing in `y ≥ 0`), `dE_anti` (decreasing in `y ≥ 0`),
  `dE_le` (`dE ≤ cos(lat)·δ·π/4`), the symmetries `dN_neg`, `dS_neg`, `dE_neg`.
-/

namespace Hpx.EnvelopeReal
open Hpx Hpx.Proj Hpx.Cover Real

/-! ## `unproj` in the equatorial band -/

theorem sgn_arcsin (y : ℝ) : sgn y (Real.arcsin (|y| * (2 / 3))) = Real.arcsin (y * (2 / 3)) := by
  by_cases h : y < 0
  · rw [sgn_of_neg h, abs_of_neg h, abs_of_nonneg (Real.arcsin_nonneg.mpr (by linarith)),
      show -y * (2 / 3) = -(y * (2 / 3)) by ring, Real.arcsin_neg, neg_neg]
  · rw [sgn_of_nonneg (not_lt.mp h), abs_of_nonneg (not_lt.mp h)]

/-- **`unproj` in the equatorial band**: for `0 ≤ x ≤ 8`, `|y| ≤ 1`: `lon = x·π/4` (`0` for `x = 8`),
    `lat = arcsin(2y/3)` -/
theorem unproj_band (x y : ℝ) (hx0 : 0 ≤ x) (hx8 : x ≤ 8) (hy : |y| ≤ 1) :
    unproj (α := ℝ) x y = some ((if x < 8 then x else x - 8) * (π / 4), Real.arcsin (y * (2 / 3))) := by
  obtain ⟨k, hk, h1, h2⟩ := facet_exists x hx0 5 (by norm_num; linarith)
  rw [unproj_sym, abs_of_nonneg hx0, unproj_pos x |y| k (by omega) h1 h2 (abs_nonneg y) (by linarith), if_pos hy,
    Option.map_some]
  congr 2
  · rw [sgn_of_nonneg hx0]
    have hk' : k ≤ 4 := by omega
    interval_cases k <;> norm_num at h1 h2
    · rw [if_pos (by linarith)]; norm_num
    · rw [if_pos (by linarith)]; norm_num
    · rw [if_pos (by linarith)]; norm_num
    · rw [if_pos (by linarith)]; norm_num
    · rw [if_neg (by linarith)]; norm_num; ring
  · exact sgn_arcsin y

/-- the longitude returned in the band differs from `x·π/4` by a multiple of `2π` -/
theorem band_lon (x : ℝ) : ∃ m : ℤ, (if x < 8 then x else x - 8) * (π / 4) = x * (π / 4) + 2 * π * m := by
  by_cases h : x < 8
  · exact ⟨0, by rw [if_pos h]; simp⟩
  · exact ⟨-1, by rw [if_neg h]; push_cast; ring⟩

/-! ## angular distances along a meridian and along a parallel -/

theorem adist_eq_of_cos (p q : ℝ × ℝ) (v : ℝ) (h0 : 0 ≤ v) (h1 : v ≤ π) (h : cos (adist p q) = cos v) :
    adist p q = v :=
  injOn_cos ⟨adist_nonneg p q, adist_le_pi p q⟩ ⟨h0, h1⟩ h

/-- same meridian (longitudes equal modulo `2π`), latitudes in `[−π/2, π/2]`: the distance is the latitude difference -/
theorem adist_same_lon (l1 l2 a b : ℝ) (m : ℤ) (hl : l1 - l2 = 2 * π * m) (ha : |a| ≤ π / 2) (hb : |b| ≤ π / 2) :
    adist (l1, a) (l2, b) = |a - b| := by
  have hpi := Real.pi_pos
  obtain ⟨a1, a2⟩ := abs_le.mp ha
  obtain ⟨b1, b2⟩ := abs_le.mp hb
  apply adist_eq_of_cos _ _ _ (abs_nonneg _) (by rw [abs_le]; constructor <;> linarith)
  rw [cos_adist]
  simp only
  rw [hl, show 2 * π * (m : ℝ) = (m : ℝ) * (2 * π) by ring, Real.cos_int_mul_two_pi, cos_abs, cos_sub]
  ring

theorem cos_two_arcsin (t : ℝ) (h0 : -1 ≤ t) (h1 : t ≤ 1) : cos (2 * Real.arcsin t) = 1 - 2 * t ^ 2 := by
  rw [cos_two_mul, Real.cos_sq', Real.sin_arcsin h0 h1]; ring

/-- same parallel of latitude `φ`, longitudes `Δ` apart (modulo `2π`): the distance is `2·arcsin(cos φ·|sin(Δ/2)|)` -/
theorem adist_same_lat (l1 l2 φ Δ : ℝ) (m : ℤ) (hl : l1 - l2 = Δ + 2 * π * m) (hφ : |φ| ≤ π / 2) :
    adist (l1, φ) (l2, φ) = 2 * Real.arcsin (cos φ * |sin (Δ / 2)|) := by
  have hpi := Real.pi_pos
  obtain ⟨a1, a2⟩ := abs_le.mp hφ
  have hc0 : 0 ≤ cos φ := Real.cos_nonneg_of_neg_pi_div_two_le_of_le a1 a2
  have hc1 : cos φ ≤ 1 := Real.cos_le_one φ
  have hs0 : 0 ≤ |sin (Δ / 2)| := abs_nonneg _
  have hs1 : |sin (Δ / 2)| ≤ 1 := Real.abs_sin_le_one _
  have ht0 : 0 ≤ cos φ * |sin (Δ / 2)| := mul_nonneg hc0 hs0
  have ht1 : cos φ * |sin (Δ / 2)| ≤ 1 := by nlinarith
  have hA0 : 0 ≤ Real.arcsin (cos φ * |sin (Δ / 2)|) := Real.arcsin_nonneg.mpr ht0
  have hA1 := Real.arcsin_le_pi_div_two (cos φ * |sin (Δ / 2)|)
  apply adist_eq_of_cos _ _ _ (by linarith) (by linarith)
  rw [cos_adist, cos_two_arcsin _ (by linarith) ht1]
  simp only
  rw [hl, show Δ + 2 * π * (m : ℝ) = Δ + (m : ℝ) * (2 * π) by ring, Real.cos_add_int_mul_two_pi]
  have h1 : cos Δ = 1 - 2 * sin (Δ / 2) ^ 2 := by
    have := Real.cos_sq' (Δ / 2)
    have h2 := cos_two_mul (Δ / 2)
    rw [show 2 * (Δ / 2) = Δ by ring] at h2
    linarith
  have h3 := Real.sin_sq_add_cos_sq φ
  rw [h1, mul_pow, sq_abs]
  nlinarith

/-! ## the closed forms -/

/-- latitude of the plane ordinate `y` (equatorial region) -/
noncomputable def latOf (y : ℝ) : ℝ := Real.arcsin (y * (2 / 3))
/-- centre → north vertex -/
noncomputable def dN (δ y : ℝ) : ℝ := Real.arcsin ((y + δ) * (2 / 3)) - Real.arcsin (y * (2 / 3))
/-- centre → south vertex -/
noncomputable def dS (δ y : ℝ) : ℝ := Real.arcsin (y * (2 / 3)) - Real.arcsin ((y - δ) * (2 / 3))
/-- centre → east (or west) vertex: same parallel, longitudes `δ·π/4` apart -/
noncomputable def dE (δ y : ℝ) : ℝ := 2 * Real.arcsin (cos (latOf y) * sin (δ * (π / 8)))

theorem latOf_abs_le (y : ℝ) : |latOf y| ≤ π / 2 :=
  abs_le.mpr ⟨Real.neg_pi_div_two_le_arcsin _, Real.arcsin_le_pi_div_two _⟩

theorem dN_nonneg (δ y : ℝ) (hδ : 0 ≤ δ) : 0 ≤ dN δ y :=
  sub_nonneg.mpr (Real.arcsin_le_arcsin (by nlinarith))
theorem dS_nonneg (δ y : ℝ) (hδ : 0 ≤ δ) : 0 ≤ dS δ y :=
  sub_nonneg.mpr (Real.arcsin_le_arcsin (by nlinarith))

theorem sin_step_nonneg (δ : ℝ) (h0 : 0 ≤ δ) (h1 : δ ≤ 1) : 0 ≤ sin (δ * (π / 8)) :=
  Real.sin_nonneg_of_nonneg_of_le_pi (by positivity) (by nlinarith [Real.pi_pos])

/-- the abscissa of the west vertex, reduced to `[0, 8)` as `ensures_x_is_positive` does -/
noncomputable def westX (x δ : ℝ) : ℝ := if x - δ < 0 then x - δ + 8 else x - δ

/-- **`true_c2v_eqr`**: for a plane centre `(x, y)` with `0 ≤ x`, `x + δ ≤ 8`, `|y| + δ ≤ 1` (`0 < δ ≤ 1`: the cell and
    its four vertices are in the equatorial region), `unproj` succeeds on the centre and on the four vertices
    `(x, y ± δ)`, `(x + δ, y)`, `(westX x δ, y)`, and the angular distances from the centre to them are exactly
    `dN δ y`, `dS δ y`, `dE δ y`, `dE δ y`. -/
theorem true_c2v_eqr (x y δ : ℝ) (hδ0 : 0 < δ) (hδ1 : δ ≤ 1) (hx0 : 0 ≤ x) (hx8 : x + δ ≤ 8) (hy : |y| + δ ≤ 1) :
    ∃ c pN pS pE pW : ℝ × ℝ,
      unproj (α := ℝ) x y = some c ∧ unproj (α := ℝ) x (y + δ) = some pN ∧ unproj (α := ℝ) x (y - δ) = some pS ∧
      unproj (α := ℝ) (x + δ) y = some pE ∧ unproj (α := ℝ) (westX x δ) y = some pW ∧
      c.2 = latOf y ∧
      adist c pN = dN δ y ∧ adist c pS = dS δ y ∧ adist c pE = dE δ y ∧ adist c pW = dE δ y := by
  obtain ⟨y1, y2⟩ := abs_le.mp (show |y| ≤ 1 - δ by linarith)
  have hyc : |y| ≤ 1 := by linarith
  have hyN : |y + δ| ≤ 1 := abs_le.mpr ⟨by linarith, by linarith⟩
  have hyS : |y - δ| ≤ 1 := abs_le.mpr ⟨by linarith, by linarith⟩
  have hw0 : 0 ≤ westX x δ := by unfold westX; split_ifs with h <;> linarith
  have hw8 : westX x δ ≤ 8 := by unfold westX; split_ifs with h <;> linarith
  refine ⟨_, _, _, _, _, unproj_band x y hx0 (by linarith) hyc, unproj_band x (y + δ) hx0 (by linarith) hyN,
    unproj_band x (y - δ) hx0 (by linarith) hyS, unproj_band (x + δ) y (by linarith) hx8 hyc,
    unproj_band (westX x δ) y hw0 hw8 hyc, rfl, ?_, ?_, ?_, ?_⟩
  · show adist (_, latOf y) (_, latOf (y + δ)) = _
    rw [adist_same_lon _ _ _ _ 0 (by simp) (latOf_abs_le y) (latOf_abs_le (y + δ)), abs_sub_comm]
    exact abs_of_nonneg (dN_nonneg δ y hδ0.le)
  · show adist (_, latOf y) (_, latOf (y - δ)) = _
    rw [adist_same_lon _ _ _ _ 0 (by simp) (latOf_abs_le y) (latOf_abs_le (y - δ))]
    exact abs_of_nonneg (dS_nonneg δ y hδ0.le)
  · obtain ⟨m1, e1⟩ := band_lon x
    obtain ⟨m2, e2⟩ := band_lon (x + δ)
    show adist (_, latOf y) (_, latOf y) = _
    rw [adist_same_lat _ _ _ (-(δ * (π / 4))) (m1 - m2) (by rw [e1, e2]; push_cast; ring) (latOf_abs_le y)]
    rw [show -(δ * (π / 4)) / 2 = -(δ * (π / 8)) by ring, Real.sin_neg, abs_neg,
      abs_of_nonneg (sin_step_nonneg δ hδ0.le hδ1)]
    rfl
  · obtain ⟨m1, e1⟩ := band_lon x
    obtain ⟨m2, e2⟩ := band_lon (westX x δ)
    have hw : ∃ m3 : ℤ, westX x δ = x - δ + 8 * m3 := by
      unfold westX; split_ifs
      · exact ⟨1, by push_cast; ring⟩
      · exact ⟨0, by simp⟩
    obtain ⟨m3, e3⟩ := hw
    show adist (_, latOf y) (_, latOf y) = _
    rw [adist_same_lat _ _ _ (δ * (π / 4)) (m1 - m2 - m3) (by rw [e1, e2, e3]; push_cast; ring) (latOf_abs_le y)]
    rw [show δ * (π / 4) / 2 = δ * (π / 8) by ring, abs_of_nonneg (sin_step_nonneg δ hδ0.le hδ1)]
    rfl

/-! ## `arcsin` is convex on `[0, 1]` -/

/-- `arcsin` is convex on `[0, 1]` (inverse of the concave increasing `sin` on `[0, π/2]`) -/
theorem arcsin_convexOn : ConvexOn ℝ (Set.Icc 0 1) Real.arcsin := by
  refine ⟨convex_Icc 0 1, ?_⟩
  intro x hx y hy a b ha hb hab
  have hpi := Real.pi_pos
  have hX0 : 0 ≤ Real.arcsin x := Real.arcsin_nonneg.mpr hx.1
  have hY0 : 0 ≤ Real.arcsin y := Real.arcsin_nonneg.mpr hy.1
  have hX1 := Real.arcsin_le_pi_div_two x
  have hY1 := Real.arcsin_le_pi_div_two y
  have hc := strictConcaveOn_sin_Icc.concaveOn.2 (x := Real.arcsin x) (y := Real.arcsin y)
    ⟨hX0, by linarith⟩ ⟨hY0, by linarith⟩ ha hb hab
  simp only [smul_eq_mul] at hc ⊢
  rw [Real.sin_arcsin (by linarith [hx.1]) hx.2, Real.sin_arcsin (by linarith [hy.1]) hy.2] at hc
  have h0 : 0 ≤ a * Real.arcsin x + b * Real.arcsin y := by positivity
  have h1 : a * Real.arcsin x + b * Real.arcsin y ≤ π / 2 := by
    calc a * Real.arcsin x + b * Real.arcsin y ≤ a * (π / 2) + b * (π / 2) := by
          gcongr
      _ = π / 2 := by rw [← add_mul, hab, one_mul]
  have hm0 : 0 ≤ a * x + b * y := by have := hx.1; have := hy.1; positivity
  have hm1 : a * x + b * y ≤ 1 := by
    calc a * x + b * y ≤ a * 1 + b * 1 := by
          have := hx.2; have := hy.2; gcongr
      _ = 1 := by linarith
  rw [Real.arcsin_le_iff_le_sin ⟨by linarith, hm1⟩ ⟨by linarith, h1⟩]
  exact hc

/-- the increments of `arcsin` over a fixed step `h` increase on `[0, 1]` -/
theorem arcsin_incr_mono (a b h : ℝ) (ha : 0 ≤ a) (hab : a ≤ b) (hh : 0 ≤ h) (hb : b + h ≤ 1) :
    Real.arcsin (a + h) - Real.arcsin a ≤ Real.arcsin (b + h) - Real.arcsin b := by
  rcases eq_or_lt_of_le hh with rfl | hpos
  · simp
  have hL : 0 < b + h - a := by linarith
  set t := h / (b + h - a) with ht
  have ht0 : 0 ≤ t := div_nonneg hh hL.le
  have ht1 : t ≤ 1 := by rw [ht, div_le_one hL]; linarith
  have hA : a ∈ Set.Icc (0 : ℝ) 1 := ⟨ha, by linarith⟩
  have hB : b + h ∈ Set.Icc (0 : ℝ) 1 := ⟨by linarith, hb⟩
  have c1 := arcsin_convexOn.2 hA hB (sub_nonneg.mpr ht1) ht0 (by ring)
  have c2 := arcsin_convexOn.2 hA hB ht0 (sub_nonneg.mpr ht1) (by ring)
  simp only [smul_eq_mul] at c1 c2
  have e1 : (1 - t) * a + t * (b + h) = a + h := by rw [ht]; field_simp; ring
  have e2 : t * a + (1 - t) * (b + h) = b := by rw [ht]; field_simp; ring
  rw [e1] at c1
  rw [e2] at c2
  linarith

/-- `arcsin(c·s) ≤ c·arcsin s` for `0 ≤ c ≤ 1`, `0 ≤ s ≤ 1` -/
theorem arcsin_mul_le (c s : ℝ) (hc0 : 0 ≤ c) (hc1 : c ≤ 1) (hs0 : 0 ≤ s) (hs1 : s ≤ 1) :
    Real.arcsin (c * s) ≤ c * Real.arcsin s := by
  have := arcsin_convexOn.2 (x := s) (y := 0) ⟨hs0, hs1⟩ ⟨le_rfl, zero_le_one⟩ hc0 (sub_nonneg.mpr hc1) (by ring)
  simpa using this

/-! ## symmetries and monotonicity of the three distances -/

theorem latOf_neg (y : ℝ) : latOf (-y) = -latOf y := by
  unfold latOf; rw [show -y * (2 / 3) = -(y * (2 / 3)) by ring, Real.arcsin_neg]

theorem dN_neg (δ y : ℝ) : dN δ (-y) = dS δ y := by
  unfold dN dS
  rw [show (-y + δ) * (2 / 3) = -((y - δ) * (2 / 3)) by ring, show -y * (2 / 3) = -(y * (2 / 3)) by ring,
    Real.arcsin_neg, Real.arcsin_neg]
  ring

theorem dS_neg (δ y : ℝ) : dS δ (-y) = dN δ y := by
  rw [← dN_neg, neg_neg]

theorem dE_neg (δ y : ℝ) : dE δ (-y) = dE δ y := by
  unfold dE; rw [latOf_neg, Real.cos_neg]

/-- in the northern hemisphere the north vertex is at least as far as the south vertex -/
theorem dS_le_dN (δ y : ℝ) (hδ : 0 ≤ δ) (hy : 0 ≤ y) (h1 : y + δ ≤ 3 / 2) : dS δ y ≤ dN δ y := by
  unfold dS dN
  rcases le_or_gt δ y with h | h
  · have := arcsin_incr_mono ((y - δ) * (2 / 3)) (y * (2 / 3)) (δ * (2 / 3)) (by nlinarith) (by nlinarith)
      (by positivity) (by linarith)
    rw [show (y - δ) * (2 / 3) + δ * (2 / 3) = y * (2 / 3) by ring,
      show y * (2 / 3) + δ * (2 / 3) = (y + δ) * (2 / 3) by ring] at this
    exact this
  · set u := y * (2 / 3) with hu
    set k := δ * (2 / 3) with hk
    have hu0 : 0 ≤ u := by positivity
    have huk : u < k := by rw [hu, hk]; linarith
    have i1 := arcsin_incr_mono 0 (k - u) (2 * u) le_rfl (by linarith) (by linarith) (by rw [hu, hk]; linarith)
    have i2 := arcsin_incr_mono 0 u u le_rfl hu0 hu0 (by rw [hu] at huk ⊢; rw [hk] at huk; linarith)
    rw [show (y - δ) * (2 / 3) = -(k - u) by rw [hu, hk]; ring, Real.arcsin_neg,
      show (y + δ) * (2 / 3) = u + k by rw [hu, hk]; ring]
    rw [Real.arcsin_zero, zero_add, sub_zero, show k - u + 2 * u = u + k by ring] at i1
    rw [Real.arcsin_zero, zero_add, sub_zero, ← two_mul] at i2
    linarith

/-- the distance to the north vertex increases with the ordinate of the centre (northern hemisphere) -/
theorem dN_mono (δ y₁ y₂ : ℝ) (hδ : 0 ≤ δ) (h0 : 0 ≤ y₁) (h12 : y₁ ≤ y₂) (h1 : y₂ + δ ≤ 3 / 2) : dN δ y₁ ≤ dN δ y₂ := by
  unfold dN
  have := arcsin_incr_mono (y₁ * (2 / 3)) (y₂ * (2 / 3)) (δ * (2 / 3)) (by positivity) (by linarith) (by positivity)
    (by linarith)
  rw [show y₁ * (2 / 3) + δ * (2 / 3) = (y₁ + δ) * (2 / 3) by ring,
    show y₂ * (2 / 3) + δ * (2 / 3) = (y₂ + δ) * (2 / 3) by ring] at this
  exact this

theorem latOf_nonneg (y : ℝ) (hy : 0 ≤ y) : 0 ≤ latOf y := Real.arcsin_nonneg.mpr (by positivity)
theorem latOf_le (y : ℝ) : latOf y ≤ π / 2 := Real.arcsin_le_pi_div_two _
theorem latOf_mono (y₁ y₂ : ℝ) (h : y₁ ≤ y₂) : latOf y₁ ≤ latOf y₂ := Real.arcsin_le_arcsin (by linarith)

theorem cos_latOf_nonneg (y : ℝ) : 0 ≤ cos (latOf y) := Real.cos_arcsin_nonneg _

/-- the distance to the east/west vertices decreases when the centre moves away from the equator -/
theorem dE_anti (δ y₁ y₂ : ℝ) (hδ0 : 0 ≤ δ) (hδ1 : δ ≤ 1) (h0 : 0 ≤ y₁) (h12 : y₁ ≤ y₂) : dE δ y₂ ≤ dE δ y₁ := by
  unfold dE
  have hpi := Real.pi_pos
  have hc : cos (latOf y₂) ≤ cos (latOf y₁) :=
    Real.cos_le_cos_of_nonneg_of_le_pi (latOf_nonneg y₁ h0) (by linarith [latOf_le y₂]) (latOf_mono y₁ y₂ h12)
  have := Real.arcsin_le_arcsin (mul_le_mul_of_nonneg_right hc (sin_step_nonneg δ hδ0 hδ1))
  linarith

/-- `dE ≤ cos(lat)·δ·π/4`: the arc of parallel is longer than the great-circle arc -/
theorem dE_le (δ y : ℝ) (hδ0 : 0 ≤ δ) (hδ1 : δ ≤ 1) : dE δ y ≤ cos (latOf y) * (δ * (π / 4)) := by
  unfold dE
  have hpi := Real.pi_pos
  have h := arcsin_mul_le (cos (latOf y)) (sin (δ * (π / 8))) (cos_latOf_nonneg y) (Real.cos_le_one _)
    (sin_step_nonneg δ hδ0 hδ1) (Real.sin_le_one _)
  rw [Real.arcsin_sin (by nlinarith) (by nlinarith)] at h
  linarith

theorem dE_nonneg (δ y : ℝ) (hδ0 : 0 ≤ δ) (hδ1 : δ ≤ 1) : 0 ≤ dE δ y := by
  unfold dE
  have := Real.arcsin_nonneg.mpr (mul_nonneg (cos_latOf_nonneg y) (sin_step_nonneg δ hδ0 hδ1))
  linarith

/-- on the equator the east vertex is at `δ·π/4` exactly -/
theorem dE_equator (δ : ℝ) (hδ0 : 0 ≤ δ) (hδ1 : δ ≤ 1) : dE δ 0 = δ * (π / 4) := by
  unfold dE latOf
  have hpi := Real.pi_pos
  rw [zero_mul, Real.arcsin_zero, Real.cos_zero, one_mul, Real.arcsin_sin (by nlinarith) (by nlinarith)]
  ring

/-! ## examples: the hypotheses are satisfiable -/

/-- depth 2 (`δ = 1/4`), centre `(3, 1/2)` -/
example : (0 : ℝ) < 1 / 4 ∧ (1 / 4 : ℝ) ≤ 1 ∧ (0 : ℝ) ≤ 3 ∧ (3 : ℝ) + 1 / 4 ≤ 8 ∧ |(1 / 2 : ℝ)| + 1 / 4 ≤ 1 := by
  rw [abs_of_pos (by norm_num : (0 : ℝ) < 1 / 2)]; norm_num

end Hpx.EnvelopeReal

#print axioms Hpx.EnvelopeReal.unproj_band
#print axioms Hpx.EnvelopeReal.true_c2v_eqr
#print axioms Hpx.EnvelopeReal.arcsin_convexOn
#print axioms Hpx.EnvelopeReal.arcsin_incr_mono
#print axioms Hpx.EnvelopeReal.dS_le_dN
#print axioms Hpx.EnvelopeReal.dN_mono
#print axioms Hpx.EnvelopeReal.dE_anti
#print axioms Hpx.EnvelopeReal.dE_le
