/-
C01 over the reals, second part: the model of the crate's projection `Proj.proj` at ℝ yields the plane point used in
`HashReal.parts_geom` (abscissa modulo 8), and the final theorem `hash_real_contains`.
-/
import HpxVerif.Lemmas.HashReal

namespace Hpx.HashReal
open Real Hpx.Proj Hpx.Hash

/-! ## the plane point: Collignon factor and ordinate as functions of the latitude -/

/-- `σ`: `√6 cos(lat/2 ± π/4)` in the caps, `1` in the equatorial region -/
noncomputable def sigma (lat : ℝ) : ℝ :=
  if Real.arcsin (2 / 3) < lat then Real.sqrt 6 * Real.cos (lat / 2 + π / 4)
  else if lat < -Real.arcsin (2 / 3) then Real.sqrt 6 * Real.cos (lat / 2 - π / 4)
  else 1

/-- ordinate of the projected point -/
noncomputable def planeY (lat : ℝ) : ℝ :=
  if Real.arcsin (2 / 3) < lat then 2 - Real.sqrt 6 * Real.cos (lat / 2 + π / 4)
  else if lat < -Real.arcsin (2 / 3) then -(2 - Real.sqrt 6 * Real.cos (lat / 2 - π / 4))
  else Real.sin lat * (3 / 2)

theorem planeOf_eq (x : ℝ) (q : ℕ) (lat : ℝ) : planeOf x q lat = (x * sigma lat + (2 * (q : ℝ) + 1), planeY lat) := by
  unfold planeOf sigma planeY
  split_ifs <;> simp

theorem asin23_nonneg : 0 ≤ Real.arcsin (2 / 3) := Real.arcsin_nonneg.mpr (by norm_num)

theorem sigma_bounds (lat : ℝ) (hl1 : -(π / 2) ≤ lat) (hl2 : lat ≤ π / 2) : 0 ≤ sigma lat ∧ sigma lat ≤ 1 := by
  unfold sigma
  split_ifs with hN hS
  · obtain ⟨a, b⟩ := collignon_y_lt_one lat hN hl2
    rw [show 1 / 2 * lat + π / 4 = lat / 2 + π / 4 by ring] at a b
    exact ⟨a, le_of_lt b⟩
  · obtain ⟨a, b⟩ := collignon_south lat hl1 hS
    exact ⟨a, le_of_lt b⟩
  · norm_num

/-- the latitude part of `proj` (computed on `|lat|`) in terms of `σ` and the signed ordinate -/
theorem proj_mid (pm1 lat : ℝ) (hl1 : -(π / 2) ≤ lat) (hl2 : lat ≤ π / 2) :
    (if isInEquatorialRegion (α := ℝ) |lat| then projCea (pm1, |lat|) else projCollignon (pm1, |lat|))
        = (pm1 * sigma lat, |planeY lat|) ∧
      (lat < 0 → planeY lat ≤ 0) ∧ (0 ≤ lat → 0 ≤ planeY lat) := by
  have hA := asin23_nonneg
  have hpi := Real.pi_pos
  unfold isInEquatorialRegion projCea projCollignon sigma planeY
  simp only [r_le, r_transitionLat, r_sin, r_ootz, r_sqrt6, r_cos, r_half, r_pi4, r_two]
  rcases lt_or_ge lat 0 with hneg | hpos
  · rw [abs_of_neg hneg]
    have hN : ¬ Real.arcsin (2 / 3) < lat := by linarith
    by_cases hS : lat < -Real.arcsin (2 / 3)
    · have hreg : ¬ (-lat ≤ Real.arcsin (2 / 3)) := by linarith
      obtain ⟨a, b⟩ := collignon_south lat hl1 hS
      have hc : Real.cos (1 / 2 * -lat + π / 4) = Real.cos (lat / 2 - π / 4) := by
        rw [show 1 / 2 * -lat + π / 4 = -(lat / 2 - π / 4) by ring, Real.cos_neg]
      simp only [hN, hS, hreg, decide_false, Bool.false_eq_true, if_false, if_true, hc]
      refine ⟨?_, fun _ => by linarith, fun h => by linarith⟩
      rw [abs_neg, abs_of_nonneg (by linarith)]
    · have hreg : -lat ≤ Real.arcsin (2 / 3) := by linarith
      have hs : Real.sin lat ≤ 0 := Real.sin_nonpos_of_nonpos_of_neg_pi_le (le_of_lt hneg) (by linarith)
      simp only [hN, hS, hreg, decide_true, if_false, if_true, Real.sin_neg]
      refine ⟨?_, fun _ => by linarith, fun h => by linarith⟩
      rw [abs_of_nonpos (by linarith)]; simp
  · rw [abs_of_nonneg hpos]
    have hS : ¬ lat < -Real.arcsin (2 / 3) := by linarith
    by_cases hN : Real.arcsin (2 / 3) < lat
    · have hreg : ¬ (lat ≤ Real.arcsin (2 / 3)) := by linarith
      obtain ⟨a, b⟩ := collignon_y_lt_one lat hN hl2
      have hc : Real.cos (1 / 2 * lat + π / 4) = Real.cos (lat / 2 + π / 4) := by
        rw [show 1 / 2 * lat + π / 4 = lat / 2 + π / 4 by ring]
      rw [hc] at a b
      simp only [hN, hreg, decide_false, Bool.false_eq_true, if_false, if_true, hc]
      refine ⟨?_, fun _ => by linarith, fun h => by linarith⟩
      rw [abs_of_nonneg (by linarith)]
    · have hreg : lat ≤ Real.arcsin (2 / 3) := by linarith
      have hs : 0 ≤ Real.sin lat := Real.sin_nonneg_of_nonneg_of_le_pi hpos (by linarith)
      simp only [hN, hS, hreg, decide_true, if_false, if_true]
      refine ⟨?_, fun h => by linarith, fun _ => by positivity⟩
      rw [abs_of_nonneg (by positivity), mul_one]

theorem r_orSign (x : ℝ) (s : Bool) : Num.orSign x s = if s then -|x| else x := rfl

/-- **`Proj.proj` over ℝ and `xpm1_and_q`**: for `|lon| < 64π` and a valid latitude, `proj lon lat = (X, Y)` with
    `Y = planeY lat` and `X ≡ xpm1·σ + (2q + 1)` modulo 8, where `(xpm1, q) = xpm1_and_q lon`; moreover
    `xpm1 ∈ [−1, 1]` and `q < 4`. -/
theorem proj_plane (lon lat : ℝ) (hlon : |lon| * (4 / π) < 256) (hl1 : -(π / 2) ≤ lat) (hl2 : lat ≤ π / 2) :
    -1 ≤ (xpm1AndQ (α := ℝ) lon).1 ∧ (xpm1AndQ (α := ℝ) lon).1 ≤ 1 ∧ (xpm1AndQ (α := ℝ) lon).2 < 4 ∧
    ∃ X : ℝ, ∃ m : ℤ, proj (α := ℝ) lon lat = some (X, planeY lat) ∧
      X + 8 * (m : ℝ) = (xpm1AndQ (α := ℝ) lon).1 * sigma lat + (2 * ((xpm1AndQ (α := ℝ) lon).2 : ℝ) + 1) := by
  obtain ⟨k, hk, h1, h2, hxq, hdec⟩ := xpm1AndQ_real lon hlon
  obtain ⟨hs0, hs1⟩ := sigma_bounds lat hl1 hl2
  have hchk : checkLat (α := ℝ) lat = true := by
    unfold checkLat; rw [r_le, r_le, r_hpi]; simp; constructor <;> linarith
  obtain ⟨hmid, hyneg, hypos⟩ := proj_mid (|lon| * (4 / π) - (2 * k + 1)) lat hl1 hl2
  have hY : Num.orSign |planeY lat| (decide (lat < 0)) = planeY lat := by
    rw [r_orSign]
    by_cases hneg : lat < 0
    · simp only [hneg, decide_true, if_true, abs_abs]
      rw [abs_of_nonpos (hyneg hneg)]; ring
    · simp only [hneg, decide_false, Bool.false_eq_true, if_false]
      exact abs_of_nonneg (hypos (not_lt.mp hneg))
  have hproj : proj (α := ℝ) lon lat =
      some (Num.orSign ((|lon| * (4 / π) - (2 * k + 1)) * sigma lat + ((2 * (k % 4) + 1 : ℕ) : ℝ)) (decide (lon < 0)),
        planeY lat) := by
    unfold proj
    simp only [hchk, Bool.not_true, Bool.false_eq_true, if_false, r_abs, r_signBit, r_fourOverPi, hdec, hmid]
    unfold applyOffsetAndSigns
    simp only [r_ofNat, hY]
  set x := |lon| * (4 / π) with hx
  have hk4 : ((k % 4 : ℕ) : ℝ) ≤ 3 := by
    have : k % 4 ≤ 3 := by omega
    exact_mod_cast this
  have hk40 : (0 : ℝ) ≤ ((k % 4 : ℕ) : ℝ) := Nat.cast_nonneg _
  rw [hxq, hproj]
  by_cases hneg : lon < 0
  · simp only [hneg, if_true, decide_true, r_orSign]
    refine ⟨by linarith, by linarith, by omega, _, 1, rfl, ?_⟩
    have hprod : -1 ≤ (x - (2 * k + 1)) * sigma lat := by nlinarith
    have hnn : 0 ≤ (x - (2 * k + 1)) * sigma lat + ((2 * (k % 4) + 1 : ℕ) : ℝ) := by push_cast; linarith
    rw [abs_of_nonneg hnn, Nat.cast_sub (by omega : k % 4 ≤ 3)]
    push_cast; ring
  · simp only [hneg, if_false, decide_false, r_orSign, Bool.false_eq_true]
    refine ⟨by linarith, by linarith, by omega, _, 0, rfl, ?_⟩
    push_cast; ring

/-! ## the closed diamond of a cell and the final theorem -/

/-- `(X, Y)` lies in the closed diamond of cell `(b, i, j)` of the grid of size `n = 2^d` -/
def InDiamond (d b i j : ℕ) (X Y : ℝ) : Prop :=
  (i : ℝ) ≤ (2 : ℝ) ^ d / 2 * ((Y - (baseCentre b).2) + (X - (baseCentre b).1) + 1) ∧
  (2 : ℝ) ^ d / 2 * ((Y - (baseCentre b).2) + (X - (baseCentre b).1) + 1) ≤ (i : ℝ) + 1 ∧
  (j : ℝ) ≤ (2 : ℝ) ^ d / 2 * ((Y - (baseCentre b).2) - (X - (baseCentre b).1) + 1) ∧
  (2 : ℝ) ^ d / 2 * ((Y - (baseCentre b).2) - (X - (baseCentre b).1) + 1) ≤ (j : ℝ) + 1

/-- `hash_v2` at ℝ is `build_hash_from_parts` applied to the parts `(d0h, gridCoord (h + l), gridCoord (h − l))` -/
theorem hashV2_real_eq (cfg : Cfg) (d : ℕ) (lon lat : ℝ) (hchk : checkLat (α := ℝ) lat = true) :
    hashV2 (α := ℝ) cfg d lon lat =
      Layer.buildHashFromParts cfg d (d0hLhInD0c (α := ℝ) lon lat).1
        (gridCoord d ((d0hLhInD0c (α := ℝ) lon lat).2.2 + (d0hLhInD0c (α := ℝ) lon lat).2.1))
        (gridCoord d ((d0hLhInD0c (α := ℝ) lon lat).2.2 - (d0hLhInD0c (α := ℝ) lon lat).2.1)) := by
  unfold hashV2 gridCoord
  simp only [hchk, Bool.not_true, Bool.false_eq_true, if_false]

/-- **C01, `hash_real_contains`** (general form).  For every depth `d ≤ 32`, every latitude in `[−π/2, π/2]` and every
    longitude with `|lon|·4/π < 256` (i.e. `|lon| < 64π`): the model of the crate's projection returns a point `(X, Y)`,
    the base cell is `< 12`, both grid coordinates are `< nside`, and `(X, Y)` — abscissa modulo 8 — lies in the closed
    diamond of the cell `(d0h, i, j)`. -/
theorem hash_real_contains_gen (d : ℕ) (hd : d ≤ 32) (lon lat : ℝ) (hlon : |lon| * (4 / π) < 256)
    (hl1 : -(π / 2) ≤ lat) (hl2 : lat ≤ π / 2) :
    ∃ X Y : ℝ, proj (α := ℝ) lon lat = some (X, Y) ∧
      (d0hLhInD0c (α := ℝ) lon lat).1 < 12 ∧
      gridCoord d ((d0hLhInD0c (α := ℝ) lon lat).2.2 + (d0hLhInD0c (α := ℝ) lon lat).2.1) < 2 ^ d ∧
      gridCoord d ((d0hLhInD0c (α := ℝ) lon lat).2.2 - (d0hLhInD0c (α := ℝ) lon lat).2.1) < 2 ^ d ∧
      ∃ m : ℤ, InDiamond d (d0hLhInD0c (α := ℝ) lon lat).1
        (gridCoord d ((d0hLhInD0c (α := ℝ) lon lat).2.2 + (d0hLhInD0c (α := ℝ) lon lat).2.1))
        (gridCoord d ((d0hLhInD0c (α := ℝ) lon lat).2.2 - (d0hLhInD0c (α := ℝ) lon lat).2.1))
        (X + 8 * (m : ℝ)) Y := by
  obtain ⟨hx1, hx2, hq, X, m0, hproj, hX⟩ := proj_plane lon lat hlon hl1 hl2
  rw [d0hLhInD0c_eq lon lat hq]
  obtain ⟨hb, ha0, ha2, hb0, hb2, hh, m1, hl⟩ :=
    parts_geom (xpm1AndQ (α := ℝ) lon).1 (xpm1AndQ (α := ℝ) lon).2 lat hx1 hx2 hq hl1 hl2
  rw [planeOf_eq] at hh hl
  simp only [] at hh hl
  generalize d0hLhOf (xpm1AndQ (α := ℝ) lon).1 (xpm1AndQ (α := ℝ) lon).2 lat = p at *
  obtain ⟨b, l, h⟩ := p
  simp only [] at *
  obtain ⟨hi, hi1, hi2⟩ := gridCoord_spec d hd (h + l) ha0 ha2
  obtain ⟨hj, hj1, hj2⟩ := gridCoord_spec d hd (h - l) hb0 hb2
  refine ⟨X, planeY lat, hproj, hb, hi, hj, m0 + m1, ?_⟩
  unfold InDiamond
  have e1 : planeY lat - (baseCentre b).2 + (X + 8 * ((m0 + m1 : ℤ) : ℝ) - (baseCentre b).1) + 1 = h + l := by
    rw [hh, hl, ← hX]; push_cast; ring
  have e2 : planeY lat - (baseCentre b).2 - (X + 8 * ((m0 + m1 : ℤ) : ℝ) - (baseCentre b).1) + 1 = h - l := by
    rw [hh, hl, ← hX]; push_cast; ring
  rw [e1, e2]
  exact ⟨hi1, hi2, hj1, hj2⟩

theorem lon_bound (lon : ℝ) (h : |lon| < 64 * π) : |lon| * (4 / π) < 256 := by
  have hpi := Real.pi_pos
  rw [← sub_pos]
  have : 256 - |lon| * (4 / π) = (64 * π - |lon|) * (4 / π) := by field_simp; ring
  rw [this]; exact mul_pos (by linarith) (by positivity)

/-- **C01, `hash_real_contains`**: containment with respect to the model of the crate's own projection, for every depth
    `d ≤ 32` (the crate uses `d ≤ 29`; over ℝ the `u32` saturation is harmless up to `d = 32`), every latitude in
    `[−π/2, π/2]` and every longitude with `|lon| < 64π` (beyond, the `as u8` cast of `|lon|·4/π` saturates).
    The parts are those of `hash_v2` (`hashV2_real_eq`). -/
theorem hash_real_contains (d : ℕ) (hd : d ≤ 32) (lon lat : ℝ) (hlon : |lon| < 64 * π)
    (hl1 : -(π / 2) ≤ lat) (hl2 : lat ≤ π / 2) :
    ∃ X Y : ℝ, proj (α := ℝ) lon lat = some (X, Y) ∧
      (d0hLhInD0c (α := ℝ) lon lat).1 < 12 ∧
      gridCoord d ((d0hLhInD0c (α := ℝ) lon lat).2.2 + (d0hLhInD0c (α := ℝ) lon lat).2.1) < 2 ^ d ∧
      gridCoord d ((d0hLhInD0c (α := ℝ) lon lat).2.2 - (d0hLhInD0c (α := ℝ) lon lat).2.1) < 2 ^ d ∧
      ∃ m : ℤ, InDiamond d (d0hLhInD0c (α := ℝ) lon lat).1
        (gridCoord d ((d0hLhInD0c (α := ℝ) lon lat).2.2 + (d0hLhInD0c (α := ℝ) lon lat).2.1))
        (gridCoord d ((d0hLhInD0c (α := ℝ) lon lat).2.2 - (d0hLhInD0c (α := ℝ) lon lat).2.1))
        (X + 8 * (m : ℝ)) Y :=
  hash_real_contains_gen d hd lon lat (lon_bound lon hlon) hl1 hl2

/-- the clamp: `v = 2` (north-east border of a base cell, e.g. the pole) gives `nside − 1` -/
theorem gridCoord_two (d : ℕ) (hd : d ≤ 32) : gridCoord d 2 = 2 ^ d - 1 := by
  obtain ⟨h1, _, h3⟩ := gridCoord_spec d hd 2 (by norm_num) (by norm_num)
  have : ((2 ^ d : ℕ) : ℝ) ≤ ((gridCoord d 2 + 1 : ℕ) : ℝ) := by push_cast; linarith
  have : 2 ^ d ≤ gridCoord d 2 + 1 := by exact_mod_cast this
  omega

/-- depth 0: both coordinates are 0 -/
theorem gridCoord_depth0 (v : ℝ) (h0 : 0 ≤ v) (h2 : v ≤ 2) : gridCoord 0 v = 0 := by
  have := (gridCoord_spec 0 (by norm_num) v h0 h2).1
  omega

/-- the hypotheses are satisfiable (negative longitude, north cap, deepest depth of the crate) -/
example : (29 : ℕ) ≤ 32 ∧ |(-1 : ℝ)| < 64 * π ∧ -(π / 2) ≤ (1 : ℝ) ∧ (1 : ℝ) ≤ π / 2 := by
  have := Real.two_le_pi
  refine ⟨by norm_num, ?_, by linarith, by linarith⟩
  rw [abs_neg, abs_one]; linarith

end Hpx.HashReal
