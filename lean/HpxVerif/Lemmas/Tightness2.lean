import HpxVerif.Lemmas.Tightness
import HpxVerif.Lemmas.CoverAllWF
import HpxVerif.Lemmas.EConeEq

/-!
# C06 (tightness clause), part 2 — every cell reported by the cone coverage has its centre within `r + 2·Mtrue depth`

* `coverRec_emit_inv`: for EVERY classifier, a cell of the output of the descent was classified `full` or `descend` at a
  level related to its depth by the invariant of the descent (structure only);
* `cone_keep_near`, `cone_full_near`: over ℝ, the haversine tests of the cone classifier in terms of angular distances;
* `valR_nonneg_of_radius`: the radii `D_d` computed by the crate are non-negative for every cone (`0 ≤ r`);
* **`cone_tight_rec`**: every cell emitted by the recursion (any cone, any start depth `ds ≤ target ≤ 29`) has its centre
  within `min (r + D_d) π`, hence within `r + 2·Mtrue d`, of the cone centre (`d` its depth);
* `largestC2VWithRadius_debug`, `largestC2VsWithRadius_debug` (every numeric instance): a value returned by the helpers in
  the dev profile is the release value (the `debug_assert!`s only panic);
* **`coneInternal_tight`**: the same on the cell list of `cone_coverage_approx_internal` (both profiles), the four
  branches: all-sky (`r ≥ π`: 12 full base cells, trivially within `π ≤ r`), 12 base cells + recursion, start depth
  `ds < depth` + recursion (the start cells are classified like any other cell: no exception), small cone (`ds ≥ depth`:
  for `ds = depth` the reported cells are the tested ones; for `ds > depth` a reported cell is the ancestor of a tested cell of
  depth `ds` whose centre is within `r + 2·Mtrue ds`: `small_cone_ancestor_near` for what follows given the cell extent).
* `pack_origin`, **`coneCoverageApprox_tight`**: on the BMOC returned by `cone_coverage_approx`, every entry that is not
  FULL is a cell of the internal list (the compaction `to_bmoc_packing` only creates full cells), hence tight.
Not covered: the FULL cells created by the compaction (a parent replacing four full children; they are inside the cone by
the other clause of C06, given H1), and `cone_coverage_approx_custom` with `delta_depth > 0` (`to_lower_depth`).
-/

namespace Hpx.Tightness
open Hpx Hpx.Hash Hpx.Proj Hpx.Cover Hpx.C2V Hpx.C2VReal Hpx.EnvelopeReal Hpx.EnvelopePolar Hpx.CellReal Hpx.TopoLift
  Hpx.CellExtent Hpx.Bmoc Real

/-! ## structure of the descent: what was decided on an emitted cell -/

/-- **for every classifier**: a cell of the output of the descent was classified `full`, or `descend` (then it is at the
    target depth), at a level `l` related to its depth by the invariant `I` -/
theorem coverRec_emit_inv (I : Nat → Nat → Prop) (target : Nat) (κ : Nat → Nat → Nat → Option Verdict)
    (hI : ∀ d l, I d l → I (d + 1) (l + 1)) :
    ∀ (fuel depth hash level : Nat) (out : List Cell), I depth level →
      coverRec target κ fuel depth hash level = some out →
      ∀ c ∈ out, ∃ l, I c.depth l ∧ (κ c.depth c.hash l = some .full ∨
        (c.depth = target ∧ ∃ fl, κ c.depth c.hash l = some (.descend fl))) := by
  intro fuel
  induction fuel with
  | zero => intro depth hash level out _ h; simp [coverRec] at h
  | succ fuel ih =>
    intro depth hash level out hinv h c hc
    unfold coverRec at h
    cases hk : κ depth hash level with
    | none => simp [hk] at h
    | some v =>
      simp only [hk] at h
      cases v with
      | full => cases h; simp at hc; subst hc; exact ⟨level, hinv, Or.inl hk⟩
      | skip => cases h; simp at hc
      | descend fl =>
        by_cases heq : (depth == target) = true
        · simp only [heq, if_true] at h; cases h; simp at hc; subst hc
          exact ⟨level, hinv, Or.inr ⟨by simpa using heq, fl, hk⟩⟩
        · simp only [heq, Bool.false_eq_true, if_false] at h
          cases h0 : coverRec target κ fuel (depth + 1) (hash <<< 2) (level + 1) with
          | none => simp [h0] at h
          | some a =>
          cases h1 : coverRec target κ fuel (depth + 1) (hash <<< 2 ||| 1) (level + 1) with
          | none => simp [h0, h1] at h
          | some b =>
          cases h2 : coverRec target κ fuel (depth + 1) (hash <<< 2 ||| 2) (level + 1) with
          | none => simp [h0, h1, h2] at h
          | some e =>
          cases h3 : coverRec target κ fuel (depth + 1) (hash <<< 2 ||| 3) (level + 1) with
          | none => simp [h0, h1, h2, h3] at h
          | some d =>
          simp only [h0, h1, h2, h3] at h
          cases h
          simp only [List.mem_append] at hc
          rcases hc with ((hc | hc) | hc) | hc
          · exact ih _ _ _ _ (hI _ _ hinv) h0 c hc
          · exact ih _ _ _ _ (hI _ _ hinv) h1 c hc
          · exact ih _ _ _ _ (hI _ _ hinv) h2 c hc
          · exact ih _ _ _ _ (hI _ _ hinv) h3 c hc

section
variable {α : Type} [Num α]

/-- a cell that the cone classifier sends down passed the upper test `shs ≤ shs_max` -/
theorem coneClassifier_descend_le (cfg : Cfg) (lon lat cosl : α) (mm : List (MinMax α)) (d h l : Nat) (fl : Bool)
    (hk : coneClassifier cfg lon lat cosl mm d h l = some (.descend fl)) :
    ∃ c m, Hash.center (α := α) cfg d h = some c ∧ mm[l]? = some m ∧ Num.le (shs lon lat cosl c) m.max = true := by
  unfold coneClassifier at hk
  split at hk
  · simp at hk
  · rename_i c hc
    simp only at hk
    split at hk
    · simp at hk
    · rename_i m hm
      refine ⟨c, m, hc, hm, ?_⟩
      split at hk
      · simp at hk
      · split at hk
        · assumption
        · simp at hk
end

/-! ## the two tests over ℝ -/

/-- **kept ⇒ near**: if the upper test succeeds (`shs ≤ shs(min(r + D, π))`, `0 ≤ r + D`), the cell centre is within
    `min (r + D) π` of the cone centre -/
theorem cone_keep_near (coneLon coneLat r D : ℝ) (c : ℝ × ℝ) (hrD : 0 ≤ r + D)
    (hkeep : Num.le (shs (α := ℝ) coneLon coneLat (Num.cos coneLat) c) (toShsMinMax r D).max = true) :
    adist (coneLon, coneLat) c ≤ min (r + D) π := by
  rw [shs_real] at hkeep
  unfold toShsMinMax at hkeep
  simp only at hkeep
  rw [toShs_real] at hkeep
  have hle : sin (adist (coneLon, coneLat) c / 2) ^ 2 ≤ sin (min (r + D) π / 2) ^ 2 := by
    have : decide (sin (adist (coneLon, coneLat) c / 2) ^ 2 ≤ sin (min (r + D) π / 2) ^ 2) = true := hkeep
    simpa using this
  have hm : 0 ≤ min (r + D) π ∧ min (r + D) π ≤ π := ⟨le_min hrD pi_pos.le, min_le_right _ _⟩
  by_contra hcon
  rw [not_le] at hcon
  have := (sin_sq_half_lt_iff _ _ hm ⟨adist_nonneg _ _, adist_le_pi _ _⟩).mpr hcon
  linarith

/-- **full ⇒ inside**: if the lower test succeeds, the cell centre is strictly within `r` of the cone centre
    (`0 ≤ D`; for `r > π` every position is) -/
theorem cone_full_near (coneLon coneLat r D : ℝ) (c : ℝ × ℝ) (hD : 0 ≤ D)
    (hfull : Num.lt (shs (α := ℝ) coneLon coneLat (Num.cos coneLat) c) (toShsMinMax r D).min = true) :
    adist (coneLon, coneLat) c < r := by
  rcases le_or_gt r π with hrpi | hrpi
  · refine cone_full_sound coneLon coneLat r D c hrpi hD hfull c ?_
    have : adist c c = 0 := by
      unfold adist; exact InnerProductGeometry.angle_self (by
        intro h0
        have := norm_vec c.1 c.2
        rw [h0, norm_zero] at this
        exact zero_ne_one this)
    linarith
  · exact lt_of_le_of_lt (adist_le_pi _ _) hrpi

/-! ## the radii of the descent -/

theorem dMax2_nonneg (d : ℕ) : 0 ≤ dMax2 (1 / 2 ^ d) := by
  rw [dMax2_eq_dN]; exact dN_nonneg _ _ (distCw_range d).1.le

/-- the value with radius is non-negative for every cone (`0 ≤ r`), every depth -/
theorem valR_nonneg_of_radius (d : ℕ) (lon lat r : ℝ) (hr : 0 ≤ r) : 0 ≤ valR d lon lat r := by
  unfold valR
  split_ifs with h0
  · have := EnvelopeReal.tl_le
    have := Real.pi_gt_three
    linarith
  · obtain ⟨hδ0, hδ1⟩ := distCw_range d
    have hpi := Real.pi_pos
    have h2 := dMax2_nonneg d
    have hlt := lsc_lt_tl
    unfold c2vR
    split_ifs with h1 h2' h3
    · have hs := new_slopeNpc_nonneg d
      have hi : 0 ≤ (Csts.new d : Csts ℝ).interceptNpc := by
        rw [new_interceptNpc_eq]; exact dMinP_nonneg _ hδ0.le
      have hx : 0 ≤ min (fold lon + r) (π / 4) := le_min (by linarith [fold_nonneg lon]) (by positivity)
      unfold npcEnv
      nlinarith
    · exact h2.trans (new_topEnv_ge d _ (min_le_right _ _))
    · have hx0 : 0 ≤ max (|lat| - r) 0 := le_max_right _ _
      have hx1 : max (|lat| - r) 0 ≤ lsc := max_le (by linarith) lsc_pos.le
      have := new_botEnv_ge d _ hx0 hx1
      have := dMax2_le_dMin2 _ hδ0 hδ1
      linarith
    · exact (h2.trans (new_topEnv_ge d _ (min_le_right _ _))).trans (le_max_left _ _)

theorem valR_le_twice (d : ℕ) (lon lat r : ℝ) (hr : 0 ≤ r) : valR d lon lat r ≤ 2 * Mtrue d := by
  unfold valR
  split_ifs with h0
  · rw [h0]; exact depth0_le_twice
  · exact c2vR_le_twice d (by omega) lon lat r hr

/-! ## the recursion -/

/-- **`cone_tight_rec`** (ℝ, release profile).  Any cone `(lon, lat, r)` with `0 ≤ r` (no restriction on its position);
    start depth `ds ≤ target ≤ 29`; `dists` the list `largest_center_to_vertex_distances_with_radius(ds, target + 1, lon,
    lat, r)` of the crate.  Every cell `c` of the output of the descent from any start cell has a centre, which is within
    `min (r + D) π` of the cone centre, `D` the crate's radius of its depth — hence within `r + 2·Mtrue c.depth`:
    radius + twice the TRUE centre-to-vertex distance `π/4·2^-depth` of the cells of its depth centred on the equator. -/
theorem cone_tight_rec (cfg : Cfg) (lon lat r : ℝ) (hr : 0 ≤ r) (ds target : ℕ) (hdt : ds ≤ target) (ht : target ≤ 29)
    (dists : List ℝ) (hdists : largestC2VsWithRadius false ds (target + 1) lon lat r = some dists)
    (fuel root : ℕ) (out : List Cell)
    (h : coverRec target (coneClassifier (α := ℝ) cfg lon lat (Num.cos lat) (dists.map (toShsMinMax r))) fuel ds root 0
      = some out)
    (c : Cell) (hc : c ∈ out) :
    ∃ ctr, center (α := ℝ) cfg c.depth c.hash = some ctr ∧
      adist (lon, lat) ctr ≤ min (r + valR c.depth lon lat r) π ∧
      adist (lon, lat) ctr ≤ r + 2 * Mtrue c.depth := by
  obtain ⟨l, ⟨hds, hl⟩, hrule⟩ := coverRec_emit_inv (fun d l => ds ≤ d ∧ l = d - ds) target _
    (fun d l ⟨h1, h2⟩ => ⟨by omega, by omega⟩) fuel ds root 0 out ⟨Nat.le_refl _, by omega⟩ h c hc
  have hv0 := valR_nonneg_of_radius c.depth lon lat r hr
  have hv2 := valR_le_twice c.depth lon lat r hr
  have key : ∀ (ctr : ℝ × ℝ) (m : MinMax ℝ), (dists.map (toShsMinMax r))[l]? = some m →
      m = toShsMinMax r (valR c.depth lon lat r) := by
    intro ctr m hm
    rw [List.getElem?_map] at hm
    cases hdl : dists[l]? with
    | none => simp [hdl] at hm
    | some D =>
      simp only [hdl, Option.map_some, Option.some.injEq] at hm
      obtain ⟨_, rfl⟩ := dists_getElem_gen ds target hdt ht lon lat r dists hdists c.depth hds D (by rw [← hl]; exact hdl)
      exact hm.symm
  rcases hrule with hk | ⟨_, fl, hk⟩
  · obtain ⟨ctr, m, hctr, hm, hmin⟩ := coneClassifier_full cfg lon lat _ _ _ _ l hk
    rw [key ctr m hm] at hmin
    have := cone_full_near lon lat r _ ctr hv0 hmin
    refine ⟨ctr, hctr, le_min (by linarith) (adist_le_pi _ _), by linarith [Mtrue_pos c.depth]⟩
  · obtain ⟨ctr, m, hctr, hm, hmax⟩ := coneClassifier_descend_le cfg lon lat _ _ _ _ l fl hk
    rw [key ctr m hm] at hmax
    have h1 := cone_keep_near lon lat r _ ctr (by linarith) hmax
    refine ⟨ctr, hctr, h1, ?_⟩
    have := min_le_left (r + valR c.depth lon lat r) π
    linarith

/-! ## the dev profile refines the release profile: the helpers either panic or return the release value -/

section
variable {α : Type} [Num α]

theorem eqrTop_debug (x : α) (c : Csts α) (v : α) (h : eqrTop true x c = some v) : eqrTop false x c = some v := by
  unfold eqrTop at h ⊢
  split at h
  · simp at h
  · simpa using h

theorem eqrBottom_debug (x : α) (c : Csts α) (v : α) (h : eqrBottom true x c = some v) : eqrBottom false x c = some v := by
  unfold eqrBottom at h ⊢
  split at h
  · simp at h
  · simpa using h

theorem eqrTopWithRadius_debug (x r : α) (c : Csts α) (v : α) (h : eqrTopWithRadius true x r c = some v) :
    eqrTopWithRadius false x r c = some v := by
  unfold eqrTopWithRadius at h ⊢
  split at h
  · simp at h
  · split at h
    · simp at h
    · simpa using eqrTop_debug _ _ _ h

theorem eqrBottomWithRadius_debug (x r : α) (c : Csts α) (v : α) (h : eqrBottomWithRadius true x r c = some v) :
    eqrBottomWithRadius false x r c = some v := by
  unfold eqrBottomWithRadius at h ⊢
  split at h
  · simp at h
  · split at h
    · simp at h
    · simpa using eqrBottom_debug _ _ _ h

theorem npcWithRadius_debug (lon r : α) (c : Csts α) (v : α) (h : npcWithRadius true lon r c = some v) :
    npcWithRadius false lon r c = some v := by
  unfold npcWithRadius at h ⊢
  split at h
  · simp at h
  · dsimp only at h ⊢
    split at h
    · simp at h
    · simpa using h

/-- **`largest_center_to_vertex_distance_with_radius`**: a value returned in the dev profile is the release value -/
theorem largestC2VWithRadius_debug (d : Nat) (lon lat r v : α) (h : largestC2VWithRadius true d lon lat r = some v) :
    largestC2VWithRadius false d lon lat r = some v := by
  unfold largestC2VWithRadius at h ⊢
  split
  · rename_i h0; simpa [h0] using h
  · rename_i h0
    simp only [h0] at h
    split
    · rename_i h29; simp [h29] at h
    · rename_i h29
      simp only [h29, if_false] at h
      dsimp only at h ⊢
      split
      · rename_i hA; rw [if_pos hA] at h; exact npcWithRadius_debug _ _ _ _ h
      · rename_i hA
        rw [if_neg hA] at h
        split
        · rename_i hB; rw [if_pos hB] at h; exact eqrTopWithRadius_debug _ _ _ _ h
        · rename_i hB
          rw [if_neg hB] at h
          split
          · rename_i hC; rw [if_pos hC] at h; exact eqrBottomWithRadius_debug _ _ _ _ h
          · rename_i hC
            rw [if_neg hC] at h
            cases ht : eqrTopWithRadius true (Num.abs lat) r (Csts.new d : Csts α) with
            | none => simp [ht] at h
            | some a =>
              cases hb : eqrBottomWithRadius true (Num.abs lat) r (Csts.new d : Csts α) with
              | none => simp [ht, hb] at h
              | some b =>
                simp only [ht, hb] at h
                rw [eqrTopWithRadius_debug _ _ _ _ ht, eqrBottomWithRadius_debug _ _ _ _ hb]
                exact h

theorem mapM_mono {β γ : Type} (f g : β → Option γ) (hfg : ∀ x v, f x = some v → g x = some v) :
    ∀ (l : List β) (vs : List γ), l.mapM f = some vs → l.mapM g = some vs := by
  intro l
  induction l with
  | nil => intro vs h; simpa using h
  | cons a l ih =>
    intro vs h
    rw [List.mapM_cons] at h ⊢
    cases ha : f a with
    | none => simp [ha] at h
    | some v =>
      cases hl : l.mapM f with
      | none => simp [ha, hl] at h
      | some w =>
        simp only [ha, hl] at h
        rw [hfg a v ha, ih w hl]
        exact h

/-- **`largest_center_to_vertex_distances_with_radius`**: a list returned in the dev profile is the release list -/
theorem largestC2VsWithRadius_debug (f t : Nat) (lon lat r : α) (vs : List α)
    (h : largestC2VsWithRadius true f t lon lat r = some vs) : largestC2VsWithRadius false f t lon lat r = some vs := by
  unfold largestC2VsWithRadius at h ⊢
  split at h
  · simp at h
  · simp only [Bool.false_and, Bool.false_eq_true, if_false]
    dsimp only at h ⊢
    generalize (if (f == 0) = true then [(Num.halfPi : α) - Num.transitionLat] else []) = head at h ⊢
    generalize (if (f == 0) = true then 1 else f) = from1 at h ⊢
    split at h
    · simp at h
    · rename_i hany
      rw [if_neg hany]
      simp only [Option.map_eq_some_iff] at h ⊢
      obtain ⟨rest, hrest, rfl⟩ := h
      refine ⟨rest, ?_, rfl⟩
      split at hrest
      · rename_i hA; rw [if_pos hA]; exact hrest
      · rename_i hA
        rw [if_neg hA]
        split at hrest
        · rename_i hB; rw [if_pos hB]; exact mapM_mono _ _ (fun d v hv => eqrTop_debug _ _ _ hv) _ _ hrest
        · rename_i hB
          rw [if_neg hB]
          split at hrest
          · rename_i hC; rw [if_pos hC]; exact mapM_mono _ _ (fun d v hv => eqrBottom_debug _ _ _ hv) _ _ hrest
          · rename_i hC
            rw [if_neg hC]
            refine mapM_mono _ _ (fun d v hv => ?_) _ _ hrest
            cases ht : eqrTop true (Num.fmin (Num.abs lat + r) (Num.transitionLat : α)) (Csts.new d : Csts α) with
            | none => simp [ht] at hv
            | some a =>
              cases hb : eqrBottom true (Num.fmax (Num.abs lat - r) (Num.zero : α)) (Csts.new d : Csts α) with
              | none => simp [ht, hb] at hv
              | some b =>
                simp only [ht, hb] at hv
                rw [eqrTop_debug _ _ _ ht, eqrBottom_debug _ _ _ hb]
                exact hv
end

/-! ## the cell list of `cone_coverage_approx_internal` -/

/-- the loop over the start cells: every cell of the result comes from the initial list or from the descent of a root -/
theorem foldlM_append_members {β : Type} (f : β → Option (List Cell)) :
    ∀ (l : List β) (init out : List Cell), l.foldlM (fun acc h => (f h).map (acc ++ ·)) init = some out →
      ∀ c ∈ out, c ∈ init ∨ ∃ h ∈ l, ∃ o, f h = some o ∧ c ∈ o := by
  intro l
  induction l with
  | nil =>
    intro init out h c hc
    simp only [List.foldlM_nil] at h
    cases h; exact Or.inl hc
  | cons a l ih =>
    intro init out h c hc
    simp only [List.foldlM_cons] at h
    cases ho : f a with
    | none => simp [ho] at h
    | some o =>
      simp only [ho, Option.map_some, Option.bind_eq_bind, Option.bind_some] at h
      rcases ih _ _ h c hc with h1 | ⟨h', hh', o', ho', hco'⟩
      · rcases List.mem_append.mp h1 with h1 | h1
        · exact Or.inl h1
        · exact Or.inr ⟨a, by simp, o, ho, h1⟩
      · exact Or.inr ⟨h', by simp [hh'], o', ho', hco'⟩

/-- the filter of the small-cone branch: every kept value is `g e` for an `e` satisfying the test `P` -/
theorem foldlM_members_pred {β : Type} (g : β → Nat) (P : β → Prop) (step : List Nat → β → Option (List Nat))
    (hstep : ∀ acc e acc', step acc e = some acc' → acc' = acc ∨ (acc' = acc ++ [g e] ∧ P e)) :
    ∀ (nm : List β) (init out : List Nat), nm.foldlM step init = some out →
      ∀ v ∈ out, v ∈ init ∨ ∃ e ∈ nm, v = g e ∧ P e := by
  intro nm
  induction nm with
  | nil =>
    intro init out h v hv
    simp only [List.foldlM_nil] at h
    cases h
    exact Or.inl hv
  | cons e nm ih =>
    intro init out h v hv
    simp only [List.foldlM_cons] at h
    cases hs : step init e with
    | none => simp [hs] at h
    | some acc' =>
      simp only [hs, Option.bind_eq_bind, Option.bind_some] at h
      rcases ih acc' out h v hv with h1 | ⟨e', he', rfl, hp⟩
      · rcases hstep _ _ _ hs with rfl | ⟨rfl, hp⟩
        · exact Or.inl h1
        · rcases List.mem_append.1 h1 with h1 | h1
          · exact Or.inl h1
          · simp only [List.mem_singleton] at h1
            exact Or.inr ⟨e, by simp, h1, hp⟩
      · exact Or.inr ⟨e', by simp [he'], rfl, hp⟩

/-- `center` succeeds over ℝ on every cell of the NESTED scheme (depth `≤ 29`) -/
theorem center_exists (cfg : Cfg) (d h : ℕ) (hd : d ≤ 29) (hh : h < 12 * 4 ^ d) :
    ∃ ctr, center (α := ℝ) cfg d h = some ctr := by
  obtain ⟨hb, hi, hj⟩ := partsOf_valid d h hh
  exact ⟨_, center_plane cfg d h _ _ _ (by rw [nHash_eq]; exact hh) (decodeHash_spec cfg d hd h hh) hb hi hj⟩

/-- the test of the small-cone branch over ℝ: a kept neighbour has its centre within `r + D` of the cone centre -/
theorem small_keep_near (coneLon coneLat r D : ℝ) (c : ℝ × ℝ) (hrD : 0 ≤ r + D)
    (hkeep : Num.le (squaredHalfSegment (c.1 - coneLon) (c.2 - coneLat) (Num.cos c.2) (Num.cos coneLat))
      (toSquaredHalfSegment (r + D)) = true) :
    adist (coneLon, coneLat) c ≤ r + D := by
  rcases le_or_gt (r + D) π with hpi | hpi
  · have e : squaredHalfSegment (c.1 - coneLon) (c.2 - coneLat) (Num.cos c.2) (Num.cos coneLat) =
        shs (α := ℝ) coneLon coneLat (Num.cos coneLat) c := rfl
    rw [e, shs_real, toShs_real] at hkeep
    have hle : sin (adist (coneLon, coneLat) c / 2) ^ 2 ≤ sin ((r + D) / 2) ^ 2 := by
      have : decide (sin (adist (coneLon, coneLat) c / 2) ^ 2 ≤ sin ((r + D) / 2) ^ 2) = true := hkeep
      simpa using this
    by_contra hcon
    rw [not_le] at hcon
    have := (sin_sq_half_lt_iff _ _ ⟨hrD, hpi⟩ ⟨adist_nonneg _ _, adist_le_pi _ _⟩).mpr hcon
    linarith
  · exact (adist_le_pi _ _).trans hpi.le

/-- **`coneInternal_tight`** (ℝ, both profiles: in the dev profile the helpers return the release values or panic): every cell `c` of the list that
    `cone_coverage_approx_internal(depth, lon, lat, r)` hands to the builder (`0 ≤ r`, any cone) satisfies
    * (all-sky `r ≥ π`, twelve base cells + recursion, start depth `ds < depth` + recursion, and small cone with
      `ds = depth`) its centre is within `r + 2·Mtrue c.depth` of the cone centre; or
    * (small cone, `ds = best_starting_depth(r) > depth`) `c` is the (partial) ancestor at `depth` of a cell `e` of depth `ds`,
      a neighbour of the cell containing the cone centre, whose centre is within `r + 2·Mtrue ds` of the cone centre. -/
theorem coneInternal_tight (cfg : Cfg) (depth : ℕ) (hd : depth ≤ 29) (lon lat r : ℝ)
    (hr : 0 ≤ r) (cells : List Cell) (h : coneInternal (α := ℝ) cfg depth lon lat r = some cells) (c : Cell)
    (hc : c ∈ cells) :
    (∃ ctr, center (α := ℝ) cfg c.depth c.hash = some ctr ∧ adist (lon, lat) ctr ≤ r + 2 * Mtrue c.depth) ∨
    (∃ ds e ctr, C2V.bestStartingDepth r = some ds ∧ depth < ds ∧ c.depth = depth ∧ c.full = false ∧
      c.hash = e >>> ((ds - depth) <<< 1) ∧ center (α := ℝ) cfg ds e = some ctr ∧
      adist (lon, lat) ctr ≤ r + 2 * Mtrue ds) := by
  have hrel : ∀ f t vs, largestC2VsWithRadius cfg.debug f t lon lat r = some vs →
      largestC2VsWithRadius false f t lon lat r = some vs := by
    intro f t vs hvs
    cases hb : cfg.debug
    · rwa [hb] at hvs
    · rw [hb] at hvs; exact largestC2VsWithRadius_debug f t lon lat r vs hvs
  have hrel1 : ∀ d v, largestC2VWithRadius cfg.debug d lon lat r = some v →
      largestC2VWithRadius false d lon lat r = some v := by
    intro d v hv
    cases hb : cfg.debug
    · rwa [hb] at hv
    · rw [hb] at hv; exact largestC2VWithRadius_debug d lon lat r v hv
  unfold coneInternal at h
  split at h
  · -- all-sky
    rename_i hge
    have hge' : π ≤ r := by
      have : decide (π ≤ r) = true := hge
      simpa using this
    cases h
    simp only [List.mem_map, List.mem_range] at hc
    obtain ⟨a, ha, rfl⟩ := hc
    obtain ⟨ctr, hctr⟩ := center_exists cfg 0 a (by omega) (by simpa using ha)
    exact Or.inl ⟨ctr, hctr, by linarith [adist_le_pi (lon, lat) ctr, Mtrue_pos 0]⟩
  · simp only [] at h
    split at h
    · -- twelve base cells
      split at h
      · simp at h
      · rename_i dists hdists
        rcases foldlM_append_members _ _ _ _ h c hc with h1 | ⟨root, _, o, ho, hco⟩
        · simp at h1
        · obtain ⟨ctr, hctr, _, hb⟩ := cone_tight_rec cfg lon lat r hr 0 depth (by omega) hd dists (hrel _ _ _ hdists) _ root o ho c hco
          exact Or.inl ⟨ctr, hctr, hb⟩
    · split at h
      · simp at h
      · rename_i ds hds
        have hd29 := CoverAll.bestDepth_le r ds hds
        split at h
        · -- small cone
          rename_i hge
          split at h
          · simp at h
          · rename_i c2v hc2v
            split at h
            · simp at h
            · split at h
              · simp at h
              · rename_i nm hnm
                simp only [Option.map_eq_some_iff] at h
                obtain ⟨l, hl, rfl⟩ := h
                simp only [List.mem_map] at hc
                obtain ⟨v, hv, rfl⟩ := hc
                rw [Builder.mem_dedup_sort] at hv
                have hval : c2v = valR ds lon lat r := by
                  have := valR_spec ds hd29 lon lat r
                  rw [hrel1 _ _ hc2v] at this
                  exact Option.some.inj this
                have hv0 := valR_nonneg_of_radius ds lon lat r hr
                have hv2 := valR_le_twice ds lon lat r hr
                have key := foldlM_members_pred (fun e : MW × Nat => e.2 >>> ((ds - depth) <<< 1))
                    (fun e => ∃ ctr, center (α := ℝ) cfg ds e.2 = some ctr ∧ adist (lon, lat) ctr ≤ r + c2v) _ ?hs nm [] l hl v hv
                rcases key with h1 | ⟨e, he, rfl, ctr, hctr, hnear⟩
                · simp at h1
                · rcases Nat.lt_or_ge depth ds with hlt | hge'
                  · exact Or.inr ⟨ds, e.2, ctr, hds, hlt, rfl, rfl, rfl, hctr, by linarith⟩
                  · have hds' : ds = depth := by omega
                    subst hds'
                    refine Or.inl ⟨ctr, ?_, by linarith⟩
                    show center (α := ℝ) cfg ds (e.2 >>> ((ds - ds) <<< 1)) = some ctr
                    rw [Nat.sub_self, Nat.zero_shiftLeft, Nat.shiftRight_zero]
                    exact hctr
                · intro acc e acc' hs
                  split at hs
                  · simp at hs
                  · rename_i ctr hctr
                    split at hs
                    · rename_i hle
                      cases hs
                      refine Or.inr ⟨rfl, ctr, hctr, ?_⟩
                      exact small_keep_near lon lat r c2v ctr (by rw [hval]; linarith) hle
                    · cases hs; exact Or.inl rfl
        · -- start depth + recursion
          rename_i hlt
          split at h
          · simp at h
          · rename_i dists hdists
            split at h
            · simp at h
            · split at h
              · simp at h
              · rename_i nm hnm
                rcases foldlM_append_members _ _ _ _ h c hc with h1 | ⟨root, _, o, ho, hco⟩
                · simp at h1
                · obtain ⟨ctr, hctr, _, hb⟩ :=
                    cone_tight_rec cfg lon lat r hr ds depth (by omega) hd dists (hrel _ _ _ hdists) _ root o ho c hco
                  exact Or.inl ⟨ctr, hctr, hb⟩

/-- one level deeper halves `Mtrue`: `2·Mtrue ds ≤ Mtrue depth` for `depth < ds` -/
theorem Mtrue_halve (depth ds : ℕ) (h : depth < ds) : 2 * Mtrue ds ≤ Mtrue depth := by
  have hpi := Real.pi_pos
  rw [Mtrue_eq, Mtrue_eq]
  have h1 : (2 : ℝ) ^ (depth + 1) ≤ 2 ^ ds := pow_le_pow_right₀ (by norm_num) h
  have h2 : (1 : ℝ) / 2 ^ ds ≤ 1 / 2 ^ (depth + 1) := one_div_le_one_div_of_le (by positivity) h1
  have h3 : (1 : ℝ) / 2 ^ (depth + 1) = 1 / 2 ^ depth / 2 := by rw [pow_succ]; field_simp
  rw [h3] at h2
  nlinarith

/-- **the small-cone branch with `ds > depth`, relative to the extent of the reported cell**: if the centre `ctrE` of the
    tested cell of depth `ds` (a position of the reported cell, its ancestor) is within `L` of the centre `ctrC` of the reported
    cell, the latter is within `r + Mtrue depth + L` of the cone centre — `≤ r + 2·L` as soon as `L` is at least `Mtrue depth`
    (e.g. `L` the largest true centre-to-vertex distance of the depth). -/
theorem small_cone_ancestor_near (lon lat r L : ℝ) (depth ds : ℕ) (hlt : depth < ds) (ctrC ctrE : ℝ × ℝ)
    (hE : adist (lon, lat) ctrE ≤ r + 2 * Mtrue ds) (hext : adist ctrE ctrC ≤ L) :
    adist (lon, lat) ctrC ≤ r + Mtrue depth + L := by
  have := adist_triangle (lon, lat) ctrE ctrC
  have := Mtrue_halve depth ds hlt
  linarith

/-! ## the BMOC returned by `cone_coverage_approx`: the partial cells are cells of the internal list -/

/-- one compaction pass only creates FULL cells: every other entry of the result is an entry of the input -/
theorem packPass_origin (dm : Nat) (l : List Nat) : ∀ r ∈ packPass dm l, r ∈ l ∨ ∃ d h, r = buildRaw d h true dm := by
  fun_induction packPass dm l with
  | case1 => intro r hr; simp at hr
  | case2 c rest d h hcond ih =>
    intro r hr
    rcases List.mem_cons.mp hr with rfl | hr
    · exact Or.inl (by simp)
    · rcases ih r hr with h1 | h1
      · exact Or.inl (by simp [h1])
      · exact Or.inr h1
  | case3 c rest d h hcond hsib ih =>
    intro r hr
    rcases List.mem_cons.mp hr with rfl | hr
    · exact Or.inr ⟨_, _, rfl⟩
    · rcases ih r hr with h1 | h1
      · exact Or.inl (List.mem_cons_of_mem _ (List.mem_of_mem_drop h1))
      · exact Or.inr h1
  | case4 c rest d h hcond hsib ih =>
    intro r hr
    rcases List.mem_cons.mp hr with rfl | hr
    · exact Or.inl (by simp)
    · rcases ih r hr with h1 | h1
      · exact Or.inl (by simp [h1])
      · exact Or.inr h1

theorem packFuel_origin (dm : Nat) : ∀ (fuel : Nat) (l : List Nat), ∀ r ∈ packFuel dm fuel l,
    r ∈ l ∨ ∃ d h, r = buildRaw d h true dm := by
  intro fuel
  induction fuel with
  | zero => intro l r hr; exact Or.inl hr
  | succ f ih =>
    intro l r hr
    unfold packFuel at hr
    dsimp only at hr
    split at hr
    · exact packPass_origin dm l r hr
    · rcases ih _ r hr with h1 | h1
      · exact packPass_origin dm l r h1
      · exact Or.inr h1

theorem pack_origin (dm : Nat) (l : List Nat) : ∀ r ∈ pack dm l, r ∈ l ∨ ∃ d h, r = buildRaw d h true dm :=
  packFuel_origin dm _ l

theorem decode_full_buildRaw (d h dm : Nat) : (decode (buildRaw d h true dm) dm).full = true := by
  unfold decode buildRaw
  simp only [if_true, beq_iff_eq]
  rw [Nat.and_one_is_mod, Nat.or_mod_two_eq_one]
  right; rfl

/-- **`cone_coverage_approx`, on the returned BMOC** (ℝ, both profiles, any cone with `0 ≤ r`): every entry of the BMOC is
    either a FULL cell (possibly created by the compaction from four full cells: covered by the "full ⇒ inside" clause of
    C06), or a cell of the internal list, for which `coneInternal_tight` holds: its centre is within `r + 2·Mtrue depth` of
    the cone centre (or it is the ancestor of such a cell in the small-cone branch `ds > depth`). -/
theorem coneCoverageApprox_tight (cfg : Cfg) (depth : ℕ) (lon lat r : ℝ) (hr : 0 ≤ r) (b : BMOC)
    (h : coneCoverageApprox (α := ℝ) cfg depth lon lat r = some b) (e : ℕ) (he : e ∈ b.entries) :
    (decode e depth).full = true ∨
    (∃ ctr, center (α := ℝ) cfg (decode e depth).depth (decode e depth).hash = some ctr ∧
      adist (lon, lat) ctr ≤ r + 2 * Mtrue (decode e depth).depth) ∨
    (∃ ds e' ctr, C2V.bestStartingDepth r = some ds ∧ depth < ds ∧ (decode e depth).depth = depth ∧
      (decode e depth).hash = e' >>> ((ds - depth) <<< 1) ∧ center (α := ℝ) cfg ds e' = some ctr ∧
      adist (lon, lat) ctr ≤ r + 2 * Mtrue ds) := by
  unfold coneCoverageApprox at h
  split at h
  · simp at h
  · rename_i hd
    have hd29 : depth ≤ 29 := by omega
    simp only [Option.map_eq_some_iff] at h
    obtain ⟨cells, hcells, rfl⟩ := h
    obtain ⟨hw, hrange⟩ := CoverAll.coneInternal_wf cfg depth lon lat r cells hcells
    rcases pack_origin depth _ e he with h1 | ⟨d, hh, rfl⟩
    · obtain ⟨c, hc, rfl⟩ := List.mem_map.mp h1
      rw [decode_encode (hw.depth_le c hc) hd29 (hrange c hc)]
      rcases coneInternal_tight cfg depth hd29 lon lat r hr cells hcells c hc with h2 | ⟨ds, e', ctr, a1, a2, a3, _, a5, a6, a7⟩
      · exact Or.inr (Or.inl h2)
      · exact Or.inr (Or.inr ⟨ds, e', ctr, a1, a2, a3, a5, a6, a7⟩)
    · exact Or.inl (decode_full_buildRaw d hh depth)

/-! ## examples: the hypotheses are satisfiable -/

/-- a polar cone (`lat = 1.2 > tl`, `r = 0.1`), start depth 3, target depth 6: the list of radii exists, and its entries are
    at most `2·Mtrue` of their depth -/
example : ∃ dists, largestC2VsWithRadius false 3 (6 + 1) (1 : ℝ) (6 / 5) (1 / 10) = some dists ∧
    ∀ d D, 3 ≤ d → dists[d - 3]? = some D → 0 ≤ D ∧ D ≤ 2 * Mtrue d := by
  obtain ⟨dists, hd⟩ := EConeEq.dists_exists_gen 3 6 (by decide) (by decide) (1 : ℝ) (6 / 5) (1 / 10)
  refine ⟨dists, hd, ?_⟩
  intro d D h3 hD
  obtain ⟨_, rfl⟩ := dists_getElem_gen 3 6 (by decide) (by decide) _ _ _ dists hd d h3 D hD
  exact ⟨valR_nonneg_of_radius d _ _ _ (by norm_num), valR_le_twice d _ _ _ (by norm_num)⟩

end Hpx.Tightness

#print axioms Hpx.Tightness.coverRec_emit_inv
#print axioms Hpx.Tightness.cone_tight_rec
#print axioms Hpx.Tightness.largestC2VsWithRadius_debug
#print axioms Hpx.Tightness.coneInternal_tight
#print axioms Hpx.Tightness.coneCoverageApprox_tight
