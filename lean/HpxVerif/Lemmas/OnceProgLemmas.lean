/-
C20: the factory bodies regenerated from the source are the program `goodProg`; safety of `goodProg` for any number of
threads and any interleaving with a two-step (torn) slot write; refinement to the four-step machine `Once.step`.
-/
import HpxVerif.Model.OnceProg

namespace Hpx.OnceProg
open Hpx.Once (OnceSt)

/-- both factories, as written in the source on this run, are the program `goodProg`; their `Once` arrays are plain
    `static`s (one `Once` per depth for the whole process, not a fresh one per use), the slots `static mut`, 30 each -/
theorem factories_are_goodProg :
    decodeProg Gen.layersProg = some goodProg ∧ decodeProg Gen.c2vProg = some goodProg ∧
    Gen.layersOnceIsStatic = true ∧ Gen.c2vOnceIsStatic = true ∧
    Gen.layersSlotIsStaticMut = true ∧ Gen.c2vSlotIsStaticMut = true ∧
    Gen.layersLens = (30, 30) ∧ Gen.c2vLens = (30, 30) := by decide

theorem upd_same (f : Nat → PC) (t : Nat) (v : PC) : upd f t v t = v := by simp [upd]
theorem upd_other (f : Nat → PC) (t u : Nat) (v : PC) (h : u ≠ t) : upd f t v u = f u := by simp [upd, h]

/-- the inductive invariant of `goodProg` -/
def Inv (s : St) : Prop :=
  s.race = false ∧
  match s.once with
  | .incomplete => s.slot = .none ∧ s.cons = 0 ∧ ∀ u, s.pc u = .at 0
  | .running t =>
    (∀ u, u ≠ t → s.pc u = .at 0) ∧
    ((s.pc t = .at 1 ∧ s.slot = .none ∧ s.cons = 0) ∨ (s.pc t = .at 2 ∧ s.slot = .writing ∧ s.cons = 0) ∨
     (s.pc t = .at 3 ∧ s.slot = .some ∧ s.cons = 1))
  | .complete => s.slot = .some ∧ s.cons = 1 ∧ ∀ u, s.pc u = .at 0 ∨ s.pc u = .at 4 ∨ s.pc u = .done true

theorem inv_init : Inv init := by simp [Inv, init]

/-- in a state satisfying the invariant every program counter is one of the five positions or `done true` -/
theorem pc_cases (s : St) (hi : Inv s) (t : Nat) :
    s.pc t = .at 0 ∨ s.pc t = .at 1 ∨ s.pc t = .at 2 ∨ s.pc t = .at 3 ∨ s.pc t = .at 4 ∨ s.pc t = .done true := by
  obtain ⟨_, hi⟩ := hi
  cases ho : s.once with
  | incomplete => rw [ho] at hi; simp only [] at hi; left; exact hi.2.2 t
  | running r =>
    rw [ho] at hi; simp only [] at hi
    by_cases h : t = r
    · subst h; rcases hi.2 with h | h | h <;> simp [h.1]
    · left; exact hi.1 t h
  | complete =>
    rw [ho] at hi; simp only [] at hi
    rcases hi.2.2 t with h | h | h <;> simp [h]

theorem inv_step (s s' : St) (t : Nat) (hi : Inv s) (hs : step true goodProg s t = some s') : Inv s' := by
  obtain ⟨hr, hi⟩ := hi
  unfold step at hs
  cases ho : s.once with
  | incomplete =>
    rw [ho] at hi; simp only [] at hi
    obtain ⟨h1, h2, h3⟩ := hi
    simp only [h3 t, goodProg, ho] at hs
    simp at hs; subst hs
    refine ⟨hr, ?_⟩
    simp only []
    refine ⟨fun u hu => by rw [upd_other _ _ _ _ hu]; exact h3 u, Or.inl ⟨upd_same _ _ _, h1, h2⟩⟩
  | running r =>
    rw [ho] at hi; simp only [] at hi
    obtain ⟨h1, h2⟩ := hi
    by_cases htr : t = r
    · subst htr
      rcases h2 with ⟨p, q, c⟩ | ⟨p, q, c⟩ | ⟨p, q, c⟩
      · simp only [p, goodProg] at hs; simp at hs; subst hs
        refine ⟨hr, ?_⟩; simp only [ho]
        exact ⟨fun u hu => by rw [upd_other _ _ _ _ hu]; exact h1 u hu, Or.inr (Or.inl ⟨upd_same _ _ _, trivial, c⟩)⟩
      · simp only [p, goodProg] at hs; simp at hs; subst hs
        refine ⟨hr, ?_⟩; simp only [ho]
        exact ⟨fun u hu => by rw [upd_other _ _ _ _ hu]; exact h1 u hu, Or.inr (Or.inr ⟨upd_same _ _ _, trivial, by omega⟩)⟩
      · simp only [p, goodProg] at hs; simp at hs; subst hs
        refine ⟨hr, ?_⟩; simp only []
        refine ⟨q, c, fun u => ?_⟩
        by_cases hu : u = t
        · subst hu; rw [upd_same]; simp
        · rw [upd_other _ _ _ _ hu]; left; exact h1 u hu
    · simp only [h1 t htr, goodProg, ho] at hs; simp at hs
  | complete =>
    rw [ho] at hi; simp only [] at hi
    obtain ⟨h1, h2, h3⟩ := hi
    rcases h3 t with p | p | p
    · simp only [p, goodProg, ho] at hs; simp at hs; subst hs
      refine ⟨hr, ?_⟩; simp only [ho]
      refine ⟨h1, h2, fun u => ?_⟩
      by_cases hu : u = t
      · subst hu; rw [upd_same]; simp
      · rw [upd_other _ _ _ _ hu]; exact h3 u
    · simp only [p, goodProg, h1] at hs; simp at hs; subst hs
      refine ⟨hr, ?_⟩; simp only [ho]
      refine ⟨by first | trivial | exact h1, h2, fun u => ?_⟩
      by_cases hu : u = t
      · subst hu; rw [upd_same]; simp
      · rw [upd_other _ _ _ _ hu]; exact h3 u
    · simp only [p] at hs; cases hs

theorem inv_run (sched : List Nat) (s : St) (hi : Inv s) : Inv (run true goodProg s sched) := by
  induction sched generalizing s with
  | nil => exact hi
  | cons t ts ih =>
    simp only [run]
    cases hs : step true goodProg s t with
    | none => exact ih s hi
    | some s' => exact ih s' (inv_step s s' t hi hs)

/-- **data-race freedom, single construction, initialised result**: in every state reachable by any schedule of any
    number of threads, with the slot write split in two steps, no read has ever observed a store in progress, the object
    has been constructed at most once, and every thread that returned got the initialised object -/
theorem safe_torn (sched : List Nat) :
    (run true goodProg init sched).race = false ∧ (run true goodProg init sched).cons ≤ 1 ∧
    ∀ t b, (run true goodProg init sched).pc t = .done b →
      b = true ∧ (run true goodProg init sched).cons = 1 ∧ (run true goodProg init sched).slot = .some := by
  have hi := inv_run sched init inv_init
  refine ⟨hi.1, ?_, ?_⟩
  · obtain ⟨_, hi⟩ := hi
    cases ho : (run true goodProg init sched).once with
    | incomplete => rw [ho] at hi; simp only [] at hi; omega
    | running r => rw [ho] at hi; simp only [] at hi; rcases hi.2 with h | h | h <;> omega
    | complete => rw [ho] at hi; simp only [] at hi; omega
  · intro t b hb
    have hc := pc_cases _ hi t
    rw [hb] at hc
    obtain ⟨_, hi⟩ := hi
    cases ho : (run true goodProg init sched).once with
    | incomplete => rw [ho] at hi; simp only [] at hi; have := hi.2.2 t; rw [hb] at this; cases this
    | running r =>
      rw [ho] at hi; simp only [] at hi
      by_cases h : t = r
      · subst h; rcases hi.2 with h | h | h <;> (have := h.1; rw [hb] at this; cases this)
      · have := hi.1 t h; rw [hb] at this; cases this
    | complete =>
      rw [ho] at hi; simp only [] at hi
      rcases hi.2.2 t with h | h | h <;> rw [hb] at h
      · cases h
      · cases h
      · cases h; exact ⟨rfl, hi.2.1, hi.1⟩

/-- no deadlock: while some thread has not returned, some thread can move -/
theorem no_deadlock (s : St) (hi : Inv s) (t : Nat) (ht : ∀ b, s.pc t ≠ .done b) :
    ∃ u, (step true goodProg s u).isSome = true := by
  obtain ⟨_, hi⟩ := hi
  cases ho : s.once with
  | incomplete =>
    rw [ho] at hi; simp only [] at hi
    exact ⟨t, by simp [step, hi.2.2 t, ho, goodProg]⟩
  | running r =>
    rw [ho] at hi; simp only [] at hi
    rcases hi.2 with h | h | h <;> exact ⟨r, by simp [step, h.1, goodProg]⟩
  | complete =>
    rw [ho] at hi; simp only [] at hi
    rcases hi.2.2 t with h | h | h
    · exact ⟨t, by simp [step, h, ho, goodProg]⟩
    · exact ⟨t, by simp [step, h, goodProg, hi.1]⟩
    · exact absurd h (ht true)

/-- **refinement**: every step of the program-level machine is a step of the four-step machine `Once.step` that the
    history replays on the real code are compared with, or (the first half of the write) leaves its state unchanged -/
theorem refines (s s' : St) (t : Nat) (hi : Inv s) (hs : step true goodProg s t = some s') :
    Once.step (abs s) t = some (abs s') ∨ abs s' = abs s := by
  have hc := pc_cases s hi t
  obtain ⟨hr, hi⟩ := hi
  unfold step at hs
  cases ho : s.once with
  | incomplete =>
    rw [ho] at hi; simp only [] at hi
    obtain ⟨h1, h2, h3⟩ := hi
    simp only [h3 t, goodProg, ho] at hs
    simp at hs; subst hs
    left
    simp only [Once.step, abs, h3 t, absPC, ho]
    congr 1
    simp only [Once.St.mk.injEq, true_and]
    funext u
    by_cases hu : u = t
    · subst hu; simp [upd, Once.upd, absPC]
    · simp [upd, Once.upd, hu]
  | running r =>
    rw [ho] at hi; simp only [] at hi
    obtain ⟨h1, h2⟩ := hi
    by_cases htr : t = r
    · subst htr
      rcases h2 with ⟨p, q, c⟩ | ⟨p, q, c⟩ | ⟨p, q, c⟩
      · -- wbegin: stutter
        simp only [p, goodProg] at hs; simp at hs; subst hs
        right
        simp only [abs, q]
        congr 1
        funext u
        by_cases hu : u = t
        · subst hu; simp [upd, p, absPC]
        · simp [upd, hu]
      · simp only [p, goodProg] at hs; simp at hs; subst hs
        left
        simp only [Once.step, abs, p, absPC]
        congr 1
        simp only [Once.St.mk.injEq, true_and, decide_true, and_true]
        funext u
        by_cases hu : u = t
        · subst hu; simp [upd, Once.upd, absPC]
        · simp [upd, Once.upd, hu]
      · simp only [p, goodProg] at hs; simp at hs; subst hs
        left
        simp only [Once.step, abs, p, absPC]
        congr 1
        simp only [Once.St.mk.injEq, true_and]
        funext u
        by_cases hu : u = t
        · subst hu; simp [upd, Once.upd, absPC]
        · simp [upd, Once.upd, hu]
    · simp only [h1 t htr, goodProg, ho] at hs; simp at hs
  | complete =>
    rw [ho] at hi; simp only [] at hi
    obtain ⟨h1, h2, h3⟩ := hi
    rcases h3 t with p | p | p
    · simp only [p, goodProg, ho] at hs; simp at hs; subst hs
      left
      simp only [Once.step, abs, p, absPC, ho]
      congr 1
      simp only [Once.St.mk.injEq, true_and]
      funext u
      by_cases hu : u = t
      · subst hu; simp [upd, Once.upd, absPC]
      · simp [upd, Once.upd, hu]
    · simp only [p, goodProg, h1] at hs; simp at hs; subst hs
      left
      simp only [Once.step, abs, p, absPC, h1]
      congr 1
      simp only [Once.St.mk.injEq, true_and, decide_true]
      funext u
      by_cases hu : u = t
      · subst hu; simp [upd, Once.upd, absPC]
      · simp [upd, Once.upd, hu]
    · simp only [p] at hs; cases hs

/-- the unsynchronised fast path (the code before the repair of finding F5, and seeded change C20_2) is NOT safe in
    this model: a two-thread history in which the early read observes a store in progress -/
theorem fast_path_races :
    (run true [.readRet, .enterOnce 5, .wbegin, .wend, .exitOnce, .readFinal] init [0, 0, 0, 1]).race = true := by decide

/-- a `const` array of `Once` (seeded change C20_1) gives every call a fresh `Once`: two constructions -/
theorem const_once_constructs_twice : (run false goodProg init [0, 0, 0, 1, 1, 1]).cons = 2 := by decide

/-- non-vacuity: a three-thread schedule of `goodProg` where thread 1 is blocked while thread 0 initialises -/
example : (run true goodProg init [0, 1, 0, 0, 1, 0, 1, 1, 0, 2, 2]).cons = 1 ∧
    (run true goodProg init [0, 1, 0, 0, 1, 0, 1, 1, 0, 2, 2]).pc 1 = .done true := by decide

end Hpx.OnceProg
