/-
RING scheme over the reals (C11), part 4: which points of the sphere project onto `GoodPoint`s of the plane, and the
resulting sphere-level statement of `ring_hash_contains` (partial: everything except the north-cap seams).
-/
import HpxVerif.Lemmas.RingReal3

namespace Hpx.RingReal
open Hpx Hpx.Ring Hpx.Proj Real

theorem r_orSign_true (x : ℝ) : Num.orSign x true = -|x| := by
  show (if true = true then -|x| else x) = -|x|; simp

/-- the value of `proj` for `0 ≤ lon < 2π`: facet `k`, offset `pm1 = lon·4/π − (2k+1) ∈ [−1, 1)`, sign `s` of `lat` -/
theorem proj_value (lon lat : ℝ) (hlon0 : 0 ≤ lon) (hlon1 : lon < 2 * π) (hlat0 : -(π / 2) ≤ lat) (hlat1 : lat ≤ π / 2) :
    ∃ k : ℕ, k < 4 ∧ -1 ≤ lon * (4 / π) - ((2 * k + 1 : ℕ) : ℝ) ∧ lon * (4 / π) - ((2 * k + 1 : ℕ) : ℝ) < 1 ∧
      proj (α := ℝ) lon lat = some
        (if |lat| ≤ Real.arcsin (2 / 3) then
          (lon * (4 / π), Num.orSign (Real.sin |lat| * (3 / 2)) (decide (lat < 0)))
        else
          ((lon * (4 / π) - ((2 * k + 1 : ℕ) : ℝ)) * (Real.sqrt 6 * Real.cos (1 / 2 * |lat| + π / 4)) + ((2 * k + 1 : ℕ) : ℝ),
            Num.orSign (2 - Real.sqrt 6 * Real.cos (1 / 2 * |lat| + π / 4)) (decide (lat < 0)))) := by
  have hpi := Real.pi_pos
  set x := lon * (4 / π) with hx
  have hx0 : 0 ≤ x := mul_nonneg hlon0 (by positivity)
  have hx8 : x < 8 := by
    rw [hx, ← sub_pos]
    have : 8 - lon * (4 / π) = (2 * π - lon) * (4 / π) := by field_simp; ring
    rw [this]; exact mul_pos (by linarith) (by positivity)
  obtain ⟨k, hk, hdec, hm1, hp1⟩ := pm1OffsetDecompose_real x hx0 hx8
  refine ⟨k, hk, hm1, hp1, ?_⟩
  have hchk : checkLat (α := ℝ) lat = true := by
    unfold checkLat; rw [r_le, r_le, r_hpi]; simp; constructor <;> linarith
  have habs_lon : Num.abs lon = lon := by rw [r_abs, abs_of_nonneg hlon0]
  have hs_lon : Num.signBit lon = false := by rw [r_signBit]; simpa using hlon0
  unfold proj
  simp only [hchk, Bool.not_true, Bool.false_eq_true, if_false, habs_lon, hs_lon, r_fourOverPi, r_abs, r_signBit]
  rw [← hx, hdec]
  unfold isInEquatorialRegion
  rw [r_le, r_transitionLat]
  by_cases heq : |lat| ≤ Real.arcsin (2 / 3)
  · simp only [heq, decide_true, if_true]
    unfold applyOffsetAndSigns projCea
    simp only [r_orSign_false, r_ofNat, r_sin, r_ootz]
    have e : x - ((2 * k + 1 : ℕ) : ℝ) + ((2 * k + 1 : ℕ) : ℝ) = x := by ring
    rw [e]
  · simp only [heq, decide_false, Bool.false_eq_true, if_false]
    unfold applyOffsetAndSigns projCollignon
    simp only [r_orSign_false, r_ofNat, r_sqrt6, r_cos, r_half, r_pi4, r_two]

/-- every point of the sphere with `0 ≤ lon < 2π` projects onto a `GoodPoint`, except the north-cap seams
    (`lat ≥ asin(2/3)` and `lon` a multiple of `π/2`) and the north pole -/
theorem goodPoint_of_sphere (lon lat : ℝ) (hlon0 : 0 ≤ lon) (hlon1 : lon < 2 * π) (hlat0 : -(π / 2) ≤ lat)
    (hlat1 : lat ≤ π / 2)
    (hseam : lat < Real.arcsin (2 / 3) ∨ (lat < π / 2 ∧ ∀ k : ℕ, lon ≠ k * (π / 2))) :
    ∃ X Y, proj (α := ℝ) lon lat = some (X, Y) ∧ GoodPoint X Y := by
  have hpi := Real.pi_pos
  obtain ⟨k, hk, hm1, hp1, hproj⟩ := proj_value lon lat hlon0 hlon1 hlat0 hlat1
  have hasin0 : 0 ≤ Real.arcsin (2 / 3) := Real.arcsin_nonneg.mpr (by norm_num)
  have hasin1 : Real.arcsin (2 / 3) ≤ π / 2 := Real.arcsin_le_pi_div_two _
  have hx0 : 0 ≤ lon * (4 / π) := mul_nonneg hlon0 (by positivity)
  have hx8 : lon * (4 / π) < 8 := by
    rw [← sub_pos]
    have : 8 - lon * (4 / π) = (2 * π - lon) * (4 / π) := by field_simp; ring
    rw [this]; exact mul_pos (by linarith) (by positivity)
  have hk7 : ((2 * k + 1 : ℕ) : ℝ) ≤ 7 := by
    have : 2 * k + 1 ≤ 7 := by omega
    exact_mod_cast this
  have hk1 : (1 : ℝ) ≤ ((2 * k + 1 : ℕ) : ℝ) := by
    have : 1 ≤ 2 * k + 1 := by omega
    exact_mod_cast this
  -- off the seams the offset is strictly inside `(−1, 1)`
  have hpm : (∀ k : ℕ, lon ≠ k * (π / 2)) → -1 < lon * (4 / π) - ((2 * k + 1 : ℕ) : ℝ) := by
    intro hne
    rcases lt_or_eq_of_le hm1 with h | h
    · exact h
    · exfalso
      apply hne k
      have : lon * (4 / π) = 2 * k := by push_cast at h; linarith
      field_simp at this; linarith
  have habs_lat : |lat| ≤ π / 2 := abs_le.mpr ⟨hlat0, hlat1⟩
  rw [hproj]
  by_cases heq : |lat| ≤ Real.arcsin (2 / 3)
  · rw [if_pos heq]
    refine ⟨_, _, rfl, hx0, hx8, ?_⟩
    have hs0 : 0 ≤ Real.sin |lat| := Real.sin_nonneg_of_nonneg_of_le_pi (abs_nonneg _) (by linarith)
    have hs1 : Real.sin |lat| ≤ 2 / 3 := by
      have := Real.sin_le_sin_of_le_of_le_pi_div_two (by linarith [abs_nonneg lat]) hasin1 heq
      rwa [Real.sin_arcsin (by norm_num) (by norm_num)] at this
    by_cases hneg : lat < 0
    · left
      simp only [hneg, decide_true, r_orSign_true]
      rw [abs_of_nonneg (by positivity)]
      constructor <;> linarith
    · have hlat0' : 0 ≤ lat := not_lt.mp hneg
      simp only [hneg, decide_false, r_orSign_false]
      rw [abs_of_nonneg hlat0'] at hs0 hs1 heq ⊢
      rcases lt_or_eq_of_le heq with hlt | he
      · left
        have : Real.sin lat < 2 / 3 := by
          have := Real.sin_lt_sin_of_lt_of_le_pi_div_two (by linarith) hasin1 hlt
          rwa [Real.sin_arcsin (by norm_num) (by norm_num)] at this
        constructor <;> linarith
      · right; left
        have hY : Real.sin lat * (3 / 2) = 1 := by
          rw [he, Real.sin_arcsin (by norm_num) (by norm_num)]; norm_num
        have hne : ∀ k : ℕ, lon ≠ k * (π / 2) := by
          rcases hseam with h | h
          · exact absurd h (by rw [he]; exact lt_irrefl _)
          · exact h.2
        refine ⟨by rw [hY], by rw [hY]; norm_num, k, hk, ?_⟩
        rw [hY, abs_lt]
        have := hpm hne
        push_cast at this hp1 ⊢
        constructor <;> linarith
  · rw [if_neg heq]
    have hgt : Real.arcsin (2 / 3) < |lat| := lt_of_not_ge heq
    obtain ⟨hy0, hy1⟩ := collignon_y_lt_one |lat| hgt habs_lat
    set y' := Real.sqrt 6 * Real.cos (1 / 2 * |lat| + π / 4) with hy'
    set pm1 := lon * (4 / π) - ((2 * k + 1 : ℕ) : ℝ) with hpm1
    have hprod1 : -y' ≤ pm1 * y' := by nlinarith
    have hprod2 : pm1 * y' ≤ y' := by nlinarith
    have e2k : ((2 * k + 1 : ℕ) : ℝ) = 2 * (k : ℝ) + 1 := by push_cast; ring
    refine ⟨_, _, rfl, by linarith, by linarith, ?_⟩
    by_cases hneg : lat < 0
    · right; right
      simp only [hneg, decide_true, r_orSign_true]
      rw [abs_of_nonneg (by linarith : 0 ≤ 2 - y')]
      refine ⟨by linarith, by linarith, k, hk, ?_⟩
      rw [abs_le, e2k]
      constructor <;> linarith
    · have hlat0' : 0 ≤ lat := not_lt.mp hneg
      right; left
      simp only [hneg, decide_false, r_orSign_false]
      have hlt : lat < π / 2 := by
        rcases hseam with h | h
        · rw [abs_of_nonneg hlat0'] at hgt; linarith
        · exact h.1
      have hne : ∀ k : ℕ, lon ≠ k * (π / 2) := by
        rcases hseam with h | h
        · rw [abs_of_nonneg hlat0'] at hgt; linarith
        · exact h.2
      have hy'pos : 0 < y' := by
        rw [hy', abs_of_nonneg hlat0']
        have h6 : 0 < Real.sqrt 6 := Real.sqrt_pos.mpr (by norm_num)
        have : 0 < Real.cos (1 / 2 * lat + π / 4) :=
          Real.cos_pos_of_mem_Ioo ⟨by linarith, by linarith⟩
        positivity
      have hpm' := hpm hne
      have hs1 : -y' < pm1 * y' := by nlinarith
      have hs2 : pm1 * y' < y' := by nlinarith
      refine ⟨by linarith, by linarith, k, hk, ?_⟩
      rw [abs_lt, e2k]
      constructor <;> linarith

/-- **`ring_hash_contains` on the sphere, partial** (items 4/5 composed with `proj`): for every `nside = n ≥ 1`, every
    `0 ≤ lon < 2π` and every latitude, EXCEPT on the north-cap seams (`lat ≥ asin(2/3)` and `lon ∈ {0, π/2, π, 3π/2}`)
    and at the north pole, `ring::hash(n, lon, lat)` returns — in both profiles — a cell `h < 12 n²` whose closed diamond
    (half-diagonal `1/n` around `center_of_projected_cell(n, h)`, modulo 8 in `x`) contains `proj(lon, lat)`.
    The exception is finding F3 (`ring_hash_corner_panics`, `hashPlane_seam_north_west`); what is missing is only the
    statement on the excepted set, where it is false. -/
theorem ring_hash_sphere_partial (debug : Bool) {n : Nat} (hn : 1 ≤ n) (hn30 : n < 2 ^ 30) (hRI : RingIndexExact n)
    (lon lat : ℝ) (hlon0 : 0 ≤ lon) (hlon1 : lon < 2 * π) (hlat0 : -(π / 2) ≤ lat) (hlat1 : lat ≤ π / 2)
    (hseam : lat < Real.arcsin (2 / 3) ∨ (lat < π / 2 ∧ ∀ k : ℕ, lon ≠ k * (π / 2))) :
    ∃ (X Y : ℝ) (h : ℕ) (cx cy : ℝ), proj (α := ℝ) lon lat = some (X, Y) ∧ Ring.hash debug n lon lat = some h ∧
      h < 12 * n * n ∧ centerOfProjectedCell (α := ℝ) debug n h = some (cx, cy) ∧
      (|X - cx| + |Y - cy| ≤ 1 / n ∨ |X - 8 - cx| + |Y - cy| ≤ 1 / n) := by
  obtain ⟨X, Y, hp, hg⟩ := goodPoint_of_sphere lon lat hlon0 hlon1 hlat0 hlat1 hseam
  have hx : ensuresXIsPositive X = X := by
    unfold ensuresXIsPositive
    have : Num.lt X (Num.zero : ℝ) = false := by rw [r_lt, r_zero]; simpa using hg.1
    rw [this]; simp
  obtain ⟨h, cx, cy, h1, h2, h3, h4⟩ :=
    ring_hash_contains_sphere_partial debug hn hn30 hRI lon lat X Y hp (by rw [hx]; exact hg)
  rw [hx] at h4
  exact ⟨X, Y, h, cx, cy, hp, h1, h2, h3, h4⟩

/-- the hypotheses are satisfiable: `n = 3`, `lon = 1`, `lat = 0` -/
example : ∃ (X Y : ℝ) (h : ℕ) (cx cy : ℝ), proj (α := ℝ) 1 0 = some (X, Y) ∧ Ring.hash true 3 (1 : ℝ) 0 = some h ∧
      h < 12 * 3 * 3 ∧ centerOfProjectedCell (α := ℝ) true 3 h = some (cx, cy) ∧
      (|X - cx| + |Y - cy| ≤ 1 / (3 : ℕ) ∨ |X - 8 - cx| + |Y - cy| ≤ 1 / (3 : ℕ)) :=
  ring_hash_sphere_partial true (n := 3) (by norm_num) (by norm_num) (by unfold RingIndexExact; decide +kernel) 1 0
    (by norm_num) (by linarith [Real.two_le_pi]) (by linarith [Real.pi_pos]) (by linarith [Real.pi_pos])
    (Or.inl (Real.arcsin_pos.mpr (by norm_num)))

/-- **`ring_sph_coo_inverts` on the sphere** (item 5 composed with `proj`): off the north-cap seams, `hash_with_dxdy` is
    defined, its offsets are in `[0,1)²`, and `sph_coo` applied to its result calls `unproj` on `proj(lon, lat)` -/
theorem ring_sph_coo_sphere_partial (debug : Bool) {n : Nat} (hn : 1 ≤ n) (hn30 : n < 2 ^ 30) (hRI : RingIndexExact n)
    (lon lat : ℝ) (hlon0 : 0 ≤ lon) (hlon1 : lon < 2 * π) (hlat0 : -(π / 2) ≤ lat) (hlat1 : lat ≤ π / 2)
    (hseam : lat < Real.arcsin (2 / 3) ∨ (lat < π / 2 ∧ ∀ k : ℕ, lon ≠ k * (π / 2))) :
    ∃ (X Y : ℝ) (h : ℕ) (dx dy : ℝ), proj (α := ℝ) lon lat = some (X, Y) ∧
      hashWithDxDy debug n lon lat = some (h, dx, dy) ∧ h < 12 * n * n ∧ 0 ≤ dx ∧ dx < 1 ∧ 0 ≤ dy ∧ dy < 1 ∧
      sphCoo debug n h dx dy = unproj X Y := by
  obtain ⟨X, Y, hp, hg⟩ := goodPoint_of_sphere lon lat hlon0 hlon1 hlat0 hlat1 hseam
  obtain ⟨r, i, dl, dh, hr, hi, hP, -⟩ := hashPlane_point debug hn hn30 hg
  have hh : hashPlaneDxDy debug n X Y = some (ringStart n r + i, (dldhToDxDy dl dh).1, (dldhToDxDy dl dh).2) := by
    unfold hashPlaneDxDy; rw [hP]; rfl
  obtain ⟨h1, h2, h3, h4, h5⟩ := ring_sph_coo_inverts debug hn hn30 hRI hg _ _ _ hh
  refine ⟨X, Y, _, _, _, hp, ?_, ringStart_add_lt hn hr hi, h2, h3, h4, h5, h1⟩
  rw [hashWithDxDy_eq, hp]; exact hh

/-- **round trip on the northern hemisphere**: `sph_coo ∘ hash_with_dxdy = id` for `0 ≤ lon < 2π`, `0 ≤ lat` on the near
    side of the pole threshold of `unproj` (`√6·cos(lat/2 + π/4) > EPS_POLE`), off the north-cap seams -/
theorem ring_sph_coo_roundtrip_north (debug : Bool) {n : Nat} (hn : 1 ≤ n) (hn30 : n < 2 ^ 30) (hRI : RingIndexExact n)
    (lon lat : ℝ) (hlon0 : 0 ≤ lon) (hlon1 : lon < 2 * π) (hlat0 : 0 ≤ lat) (hlat1 : lat ≤ π / 2)
    (hpole : (Num.epsPole : ℝ) < Real.sqrt 6 * Real.cos (1 / 2 * lat + π / 4))
    (hseam : lat < Real.arcsin (2 / 3) ∨ (lat < π / 2 ∧ ∀ k : ℕ, lon ≠ k * (π / 2))) :
    ∃ (h : ℕ) (dx dy : ℝ), hashWithDxDy debug n lon lat = some (h, dx, dy) ∧ sphCoo debug n h dx dy = some (lon, lat) := by
  obtain ⟨X, Y, h, dx, dy, hp, hh, -, -, -, -, -, hs⟩ :=
    ring_sph_coo_sphere_partial debug hn hn30 hRI lon lat hlon0 hlon1 (by linarith [Real.pi_pos]) hlat1 hseam
  obtain ⟨X', Y', hp', hu⟩ := unproj_proj_real lon lat hlon0 hlon1 hlat0 hlat1 hpole
  rw [hp] at hp'
  simp only [Option.some.injEq, Prod.mk.injEq] at hp'
  obtain ⟨rfl, rfl⟩ := hp'
  exact ⟨h, dx, dy, hh, by rw [hs, hu]⟩

/-! ## the north pole -/

theorem hashTail_pole {α : Type} [Num α] (debug : Bool) {n K I' : Nat} (dl dh : α) (hn : 1 ≤ n) (hK : 5 * n ≤ K) :
    hashTail debug n dl dh K I' = some (I' / n, Num.one, Num.one) := by
  unfold hashTail
  rw [if_pos hK, if_neg (by omega)]

/-- at the north pole of facet `q` (plane point `(2q+1, 2)`) the code takes its "north pole" exit: cell `q` (the first
    ring), with the conventional offsets `(dl, dh) = (1, 1)`, i.e. `(dx, dy) = (1, 0)` — which `sph_coo` rejects.  The
    cell is the right one (the pole is the north vertex of the four cells of the first ring). -/
theorem ring_hash_pole (debug : Bool) {n q : Nat} (hn : 1 ≤ n) (hn30 : n < 2 ^ 30) (hq : q < 4) :
    hashPlane debug n ((2 * q + 1 : ℕ) : ℝ) 2 = some (q, 1, 1) := by
  have hn0 : (0 : ℝ) < n := by exact_mod_cast hn
  have hq' : ((2 * q + 1 : ℕ) : ℝ) < 8 := by
    have : 2 * q + 1 < 8 := by omega
    exact_mod_cast this
  have hdl : 1 / 2 * (n : ℝ) * ((2 * q + 1 : ℕ) : ℝ) = ((n * (2 * q + 1) : ℕ) : ℝ) / 2 := by push_cast; ring
  have hdh : 1 / 2 * (n : ℝ) * (2 + 3) = ((5 * n : ℕ) : ℝ) / 2 := by push_cast; ring
  have half_floor : ∀ c : ℕ, ((c / 2 : ℕ) : ℝ) = (c : ℝ) / 2 - ((c % 2 : ℕ) : ℝ) / 2 := by
    intro c
    have := Nat.div_add_mod c 2
    have h2 : ((2 * (c / 2) + c % 2 : ℕ) : ℝ) = c := by rw [this]
    push_cast at h2; linarith
  have hmod : ∀ c : ℕ, ((c % 2 : ℕ) : ℝ) = 0 ∨ ((c % 2 : ℕ) : ℝ) = 1 := by
    intro c; rcases Nat.mod_two_eq_zero_or_one c with h | h <;> simp [h]
  rw [hashPlane_box debug hn hn30 (by positivity) hq' (by norm_num) (by norm_num) (n * (2 * q + 1) / 2) (5 * n / 2)
    (by rw [hdl, half_floor]; rcases hmod (n * (2 * q + 1)) with h | h <;> rw [h] <;> linarith)
    (by rw [hdl, half_floor]; rcases hmod (n * (2 * q + 1)) with h | h <;> rw [h] <;> linarith)
    (by rw [hdh, half_floor]; rcases hmod (5 * n) with h | h <;> rw [h] <;> linarith)
    (by rw [hdh, half_floor]; rcases hmod (5 * n) with h | h <;> rw [h] <;> linarith)]
  have e : 1 / 2 * (n : ℝ) * ((2 * q + 1 : ℕ) : ℝ) - ((n * (2 * q + 1) / 2 : ℕ) : ℝ)
      = 1 / 2 * n * (2 + 3) - ((5 * n / 2 : ℕ) : ℝ) := by
    rw [hdl, hdh, half_floor, half_floor]
    have : (n * (2 * q + 1)) % 2 = (5 * n) % 2 := by
      rw [Nat.mul_add, Nat.mul_one]
      have : n * (2 * q) = 2 * (n * q) := by ring
      omega
    rw [this]; ring
  rw [e]
  generalize 1 / 2 * (n : ℝ) * (2 + 3) - ((5 * n / 2 : ℕ) : ℝ) = f
  have hbox : ∃ K, 5 * n ≤ K ∧ dealWith1x1Box f f (2 * (5 * n / 2)) (n * (2 * q + 1) / 2) = (K, n * (2 * q + 1) / 2) := by
    unfold dealWith1x1Box
    simp only [r_le, r_ge, le_refl, decide_true, if_true]
    by_cases c : (1 : ℝ) - f ≤ f
    · refine ⟨2 * (5 * n / 2) + 1 + 1, by omega, ?_⟩
      simp only [r_one, c, decide_true, if_true]; rfl
    · refine ⟨2 * (5 * n / 2) + 1 + 0, by omega, ?_⟩
      simp only [r_one, c, decide_false, Bool.false_eq_true, if_false]; rfl
  obtain ⟨K, hK, hb⟩ := hbox
  rw [hb, hashTail_pole debug _ _ hn hK, r_one]
  have : n * (2 * q + 1) / 2 / n = q := by
    have e1 : n * (2 * q + 1) = 2 * (n * q) + n := by ring
    rw [e1]
    have e2 : (2 * (n * q) + n) / 2 = n * q + n / 2 := by omega
    rw [e2, Nat.mul_add_div (by omega), Nat.div_eq_of_lt (by omega)]; rfl
  rw [this]

/-! ## the west seams of facets 1, 2, 3 -/

/-- the phantom diamond just west of the first cell of facet `q ≥ 1` is silently mapped to the LAST cell of facet
    `q − 1` of the same ring (on the other side of the gap between the two Collignon triangles) -/
theorem hashTail_phantom_west {α : Type} [Num α] (debug : Bool) {n K q : Nat} (dl dh : α) (hn30 : n < 2 ^ 30)
    (hK1 : 4 * n < K) (hK2 : K < 5 * n) (hq1 : 1 ≤ q) (hq : q < 4) :
    hashTail debug n dl dh K (n * q + (K - 4 * n + 1) / 2 - 1)
      = some (tri4 (5 * n - 1 - K) + (q * (5 * n - K) - 1), dl, dh) := by
  have hlt : tri4 (5 * n - 1 - K) + (q * (5 * n - K) - 1) < 2 ^ 64 := by
    have h1 : tri4 (5 * n - 1 - K) ≤ tri4 n := tri4_mono (by omega)
    have h2 := tri4_eq n
    have h3 : n * (n + 1) ≤ 2 ^ 30 * (2 ^ 30 + 1) := Nat.mul_le_mul (by omega) (by omega)
    have h4 : q * (5 * n - K) ≤ 3 * (5 * n - K) := Nat.mul_le_mul_right _ (by omega)
    omega
  unfold hashTail
  rw [if_neg (by omega), sub64_of_le (by omega : 1 ≤ 5 * n)]
  simp only []
  rw [sub64_of_le (by omega : K ≤ 5 * n - 1)]
  simp only []
  rw [if_neg (by omega), if_pos (by omega), sub64_of_le (by omega : 1 ≤ n)]
  simp only []
  rw [sub64_of_le (by omega : 5 * n - 1 - K ≤ n - 1)]
  simp only []
  rw [shr_and_one]
  have e : n - 1 - (5 * n - 1 - K) = K - 4 * n := by omega
  rw [e]
  have hdiv : (n * q + (K - 4 * n + 1) / 2 - 1) / n = q := by
    have : n * q + (K - 4 * n + 1) / 2 - 1 = n * q + ((K - 4 * n + 1) / 2 - 1) := by omega
    rw [this, Nat.mul_add_div (by omega), Nat.div_eq_of_lt (by omega)]; rfl
  rw [hdiv]
  have hnq : n * q = (K - 4 * n) * q + q * (5 * n - K) := by
    have : n = (K - 4 * n) + (5 * n - K) := by omega
    calc n * q = ((K - 4 * n) + (5 * n - K)) * q := by rw [← this]
      _ = (K - 4 * n) * q + q * (5 * n - K) := by ring
  have hpos : 1 ≤ q * (5 * n - K) := Nat.mul_pos (by omega) (by omega)
  rw [sub64_of_le (by omega)]
  simp only []
  rw [Nat.mod_eq_of_lt (by
    have : n * q + (K - 4 * n + 1) / 2 - 1 - ((K - 4 * n + 1) / 2 + (K - 4 * n) * q) = q * (5 * n - K) - 1 := by omega
    rw [this]; exact hlt)]
  congr 2; omega

/-- **F3 on the west seams of facets 1–3**, every `n ≥ 2`: a point of the edge `x = 2q + (y − 1)` of the north triangle
    `q ≥ 1` below the last ring (`1 ≤ y < 2 − 1/n`; on the sphere `lon = q·π/2`, `lat ≥ asin(2/3)`) is given — silently,
    in both profiles — to a cell of its ring whose centre lies at least `2/n` further west (`cxI + 2 ≤ n·x`): the closed
    diamond of half-diagonal `1/n` of that cell does not contain the point. -/
theorem hashPlane_seam_west (debug : Bool) {n q : Nat} (hn2 : 2 ≤ n) (hn30 : n < 2 ^ 30) (hq1 : 1 ≤ q) (hq : q < 4)
    {Y : ℝ} (h1 : 1 ≤ Y) (h2 : (n : ℝ) * Y < 2 * n - 1) :
    ∃ (r i : ℕ) (dl dh : ℝ), r < 4 * n - 1 ∧ i < 4 * perFacet n r ∧
      hashPlane debug n (2 * q + (Y - 1)) Y = some (ringStart n r + i, dl, dh) ∧
      (cxI n r i : ℝ) + 2 ≤ n * (2 * q + (Y - 1)) ∧ (n : ℝ) * (2 * q + (Y - 1)) ≤ 7 * n := by
  have hn0 : (0 : ℝ) < n := by
    have : 0 < n := by omega
    exact_mod_cast this
  have hY2 : Y < 2 := by nlinarith
  have hqr : (q : ℝ) ≤ 3 := by
    have : q ≤ 3 := by omega
    exact_mod_cast this
  have h0 : 0 ≤ 1 / 2 * (n : ℝ) * (Y - 1) := by
    have : 0 ≤ Y - 1 := by linarith
    positivity
  have ha1 := Nat.floor_le h0
  have ha2 := Nat.lt_floor_add_one (1 / 2 * (n : ℝ) * (Y - 1))
  generalize ⌊1 / 2 * (n : ℝ) * (Y - 1)⌋₊ = t at ha1 ha2
  have ex : 1 / 2 * (n : ℝ) * (2 * q + (Y - 1)) = ((n * q : ℕ) : ℝ) + 1 / 2 * n * (Y - 1) := by push_cast; ring
  have e : 1 / 2 * (n : ℝ) * (Y + 3) - ((t + 2 * n : ℕ) : ℝ) = 1 / 2 * n * (2 * q + (Y - 1)) - ((n * q + t : ℕ) : ℝ) := by
    push_cast; ring
  have hX0 : (0 : ℝ) ≤ 2 * q + (Y - 1) := by
    have : (0 : ℝ) ≤ q := Nat.cast_nonneg q
    linarith
  rw [hashPlane_box debug (by omega) hn30 hX0 (by linarith) (by linarith) (by linarith) (n * q + t) (t + 2 * n)
    (by rw [ex]; push_cast; linarith) (by rw [ex]; push_cast; linarith)
    (by push_cast; linarith) (by push_cast; linarith), e]
  have ht : 2 * t + 1 < n := by
    have : 2 * (t : ℝ) + 1 < n := by nlinarith
    exact_mod_cast this
  have ht' : 1 - (1 / 2 * (n : ℝ) * (2 * q + (Y - 1)) - ((n * q + t : ℕ) : ℝ))
      ≤ 1 / 2 * (n : ℝ) * (2 * q + (Y - 1)) - ((n * q + t : ℕ) : ℝ) → 2 * t + 2 < n := by
    intro hc
    rw [ex] at hc; push_cast at hc
    have : 2 * (t : ℝ) + 2 < n := by nlinarith
    exact_mod_cast this
  have hX : 2 * ((n * q : ℕ) : ℝ) + 2 * t ≤ n * (2 * q + (Y - 1)) := by push_cast; nlinarith
  have hX7 : (n : ℝ) * (2 * q + (Y - 1)) ≤ 7 * n := by nlinarith
  generalize 1 / 2 * (n : ℝ) * (2 * q + (Y - 1)) - ((n * q + t : ℕ) : ℝ) = f at *
  -- the cell returned, for a ring `K = 4n + off`
  have key : ∀ K, 4 * n + 2 * t + 1 ≤ K → K ≤ 4 * n + 2 * t + 2 → K < 5 * n → n * q + t = n * q + (K - 4 * n + 1) / 2 - 1 →
      ∃ (r i : ℕ), r < 4 * n - 1 ∧ i < 4 * perFacet n r ∧
        hashTail debug n f f K (n * q + t) = some (ringStart n r + i, f, f) ∧
        (cxI n r i : ℝ) + 2 ≤ n * (2 * q + (Y - 1)) := by
    intro K hK1 hK2 hK5 hI
    have hr : 5 * n - 1 - K + 1 < n := by omega
    have hm : perFacet n (5 * n - 1 - K) = 5 * n - K := by unfold perFacet; rw [if_pos hr]; omega
    have hs : ringStart n (5 * n - 1 - K) = tri4 (5 * n - 1 - K) := by unfold ringStart; rw [if_pos hr]
    have hc : cxOff n (5 * n - 1 - K) = K - 4 * n + 1 := by unfold cxOff; rw [if_pos hr]; omega
    have hpos : 1 ≤ q * (5 * n - K) := Nat.mul_pos (by omega) (by omega)
    have hi : q * (5 * n - K) - 1 = (q - 1) * perFacet n (5 * n - 1 - K) + (5 * n - K - 1) := by
      rw [hm]
      have : q * (5 * n - K) = (q - 1) * (5 * n - K) + (5 * n - K) := by
        have hq' : q = (q - 1) + 1 := by omega
        calc q * (5 * n - K) = ((q - 1) + 1) * (5 * n - K) := by rw [← hq']
          _ = (q - 1) * (5 * n - K) + (5 * n - K) := by ring
      omega
    have hcx : cxI n (5 * n - 1 - K) (q * (5 * n - K) - 1) = 2 * n * (q - 1) + 2 * (5 * n - K - 1) + (K - 4 * n + 1) := by
      rw [hi, cxI_facet (by rw [hm]; omega), hc]
    refine ⟨5 * n - 1 - K, q * (5 * n - K) - 1, by omega, ?_, ?_, ?_⟩
    · rw [hm]
      have : q * (5 * n - K) ≤ 3 * (5 * n - K) := Nat.mul_le_mul_right _ (by omega)
      omega
    · rw [hI, hashTail_phantom_west debug f f hn30 (by omega) hK5 hq1 hq, hs]
    · rw [hcx]
      have e1 : 2 * n * (q - 1) = 2 * (n * q) - 2 * n := by
        have : n * (q - 1) = n * q - n := by rw [Nat.mul_sub, Nat.mul_one]
        rw [Nat.mul_assoc, this]; omega
      have hnq : n ≤ n * q := Nat.le_mul_of_pos_right n (by omega)
      have e2 : 2 * n * (q - 1) + 2 * (5 * n - K - 1) + (K - 4 * n + 1) + 2 + K = 2 * (n * q) + 4 * n + 1 := by
        rw [e1]; omega
      have e3 : ((2 * n * (q - 1) + 2 * (5 * n - K - 1) + (K - 4 * n + 1) : ℕ) : ℝ) + 2 + K = 2 * ((n * q : ℕ) : ℝ) + 4 * n + 1 := by
        exact_mod_cast e2
      have hKr : (4 : ℝ) * n + 2 * t + 1 ≤ K := by exact_mod_cast hK1
      linarith
  unfold dealWith1x1Box
  simp only [r_le, r_ge, r_one, le_refl, decide_true, if_true]
  by_cases c2 : 1 - f ≤ f
  · have := ht' c2
    simp only [c2, decide_true, if_true]
    have e1 : (1 : ℕ) >>> 1 = 0 := rfl
    rw [e1, Nat.add_zero]
    obtain ⟨r, i, hr, hi, hh, hc⟩ := key (2 * (t + 2 * n) + 1 + 1) (by omega) (by omega) (by omega) (by omega)
    exact ⟨r, i, f, f, hr, hi, hh, hc, hX7⟩
  · simp only [c2, decide_false, Bool.false_eq_true, if_false]
    have e1 : (0 : ℕ) >>> 1 = 0 := rfl
    rw [e1, Nat.add_zero]
    obtain ⟨r, i, hr, hi, hh, hc⟩ := key (2 * (t + 2 * n) + 1 + 0) (by omega) (by omega) (by omega) (by omega)
    exact ⟨r, i, f, f, hr, hi, hh, hc, hX7⟩

end Hpx.RingReal
