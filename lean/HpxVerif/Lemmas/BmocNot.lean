/-
`not`: three-valued semantics and well-formedness (C07, C08, C09).  Layer 1: segments, `push` ranges, `go_up`,
`go_down`.
-/
import HpxVerif.Lemmas.BmocSem
import Mathlib.Tactic.Ring
import Mathlib.Tactic.Linarith
import Mathlib.Tactic.IntervalCases

namespace Hpx.Bmoc

/-- position of the first depth-`D` cell of cell `(d, h)` -/
def P (D d h : Nat) : Nat := h * 4 ^ (D - d)

theorem lo_eq_P (D : Nat) (c : Cell) : lo D c = P D c.depth c.hash := rfl
theorem hi_eq_P (D : Nat) (c : Cell) : hi D c = P D c.depth (c.hash + 1) := rfl

theorem P_mono (D d : Nat) {a b : Nat} (h : a ≤ b) : P D d a ≤ P D d b := Nat.mul_le_mul_right _ h

theorem P_parent (D d m : Nat) (hd : 0 < d) (hD : d ≤ D) : P D d (4 * m) = P D (d - 1) m := by
  unfold P
  have e : 4 ^ (D - (d - 1)) = 4 * 4 ^ (D - d) := by
    rw [show D - (d - 1) = (D - d) + 1 by omega, Nat.pow_succ]; omega
  rw [e]; ring

theorem P_child (D d m : Nat) (hD : d + 1 ≤ D) : P D (d + 1) (4 * m) = P D d m := by
  have := P_parent D (d + 1) m (by omega) hD
  simpa using this

/-- `l` is well formed, lies within `[a, b)` and denotes `g` there -/
structure Seg (D : Nat) (l : List Cell) (a b : Nat) (g : Nat → Tri) : Prop where
  wf : WF D l
  inside : ∀ c ∈ l, a ≤ lo D c ∧ hi D c ≤ b
  sem : ∀ x, a ≤ x → x < b → stOf D l x = g x

theorem stOf_append (D : Nat) (l1 l2 : List Cell) (x : Nat) :
    stOf D (l1 ++ l2) x = if stOf D l1 x = .abs then stOf D l2 x else stOf D l1 x := by
  induction l1 with
  | nil => simp [stOf]
  | cons c l ih =>
    simp only [List.cons_append, stOf]
    split
    · cases c.full <;> simp [Tri.ofFlag]
    · exact ih

theorem WF_append' {D : Nat} {a b : List Cell} (ha : WF D a) (hb : WF D b)
    (hab : ∀ x ∈ a, ∀ y ∈ b, hi D x ≤ lo D y) : WF D (a ++ b) := by
  induction a with
  | nil => simpa using hb
  | cons c l ih =>
    simp only [List.cons_append]
    refine ⟨ha.1, ?_, ih ha.tail (fun x hx y hy => hab x (by simp [hx]) y hy)⟩
    intro c' hc'
    rcases List.mem_append.1 hc' with h | h
    · exact ha.2.1 c' h
    · exact hab c (by simp) c' h

theorem Seg.nil (D a : Nat) (g : Nat → Tri) : Seg D [] a a g :=
  ⟨trivial, fun c hc => by simp at hc, fun x h1 h2 => by omega⟩

theorem Seg.append {D : Nat} {l1 l2 : List Cell} {a b c : Nat} {g : Nat → Tri} (hab : a ≤ b) (hbc : b ≤ c)
    (s1 : Seg D l1 a b g) (s2 : Seg D l2 b c g) : Seg D (l1 ++ l2) a c g := by
  refine ⟨WF_append' s1.wf s2.wf ?_, ?_, ?_⟩
  · intro x hx y hy
    exact Nat.le_trans (s1.inside x hx).2 (s2.inside y hy).1
  · intro c' hc'
    rcases List.mem_append.1 hc' with h | h
    · exact ⟨(s1.inside c' h).1, Nat.le_trans (s1.inside c' h).2 hbc⟩
    · exact ⟨Nat.le_trans hab (s2.inside c' h).1, (s2.inside c' h).2⟩
  · intro x hxa hxc
    rw [stOf_append]
    by_cases hxb : x < b
    · have h2 : stOf D l2 x = .abs := stOf_absent_of_lt (fun c' hc' => Nat.lt_of_lt_of_le hxb (s2.inside c' hc').1)
      rw [h2]
      split
      · rename_i h1; rw [← s1.sem x hxa hxb, h1]
      · exact s1.sem x hxa hxb
    · have h1 : stOf D l1 x = .abs :=
        stOf_absent_of_ge (fun c' hc' => Nat.le_trans (s1.inside c' hc').2 (by omega))
      rw [h1]; simp only [if_true]
      exact s2.sem x (by omega) hxc

theorem Seg.mono_g {D : Nat} {l : List Cell} {a b : Nat} {g g' : Nat → Tri} (s : Seg D l a b g)
    (h : ∀ x, a ≤ x → x < b → g x = g' x) : Seg D l a b g' :=
  ⟨s.wf, s.inside, fun x h1 h2 => by rw [s.sem x h1 h2, h x h1 h2]⟩

theorem Seg.single (D d h : Nat) (f : Bool) (hd : d ≤ D) :
    Seg D [⟨d, h, f⟩] (P D d h) (P D d (h + 1)) (fun _ => Tri.ofFlag f) := by
  refine ⟨⟨hd, fun c hc => by simp at hc, trivial⟩, ?_, ?_⟩
  · intro c hc
    simp only [List.mem_singleton] at hc
    subst hc
    exact ⟨Nat.le_refl _, Nat.le_refl _⟩
  · intro x h1 h2
    rw [stOf_cons]
    have : lo D ⟨d, h, f⟩ ≤ x ∧ x < hi D ⟨d, h, f⟩ := ⟨h1, h2⟩
    simp [this]

theorem pushRange_succ (d lo hi : Nat) (f : Bool) (h : lo ≤ hi) :
    pushRange d lo (hi + 1) f = pushRange d lo hi f ++ [⟨d, hi, f⟩] := by
  unfold pushRange
  rw [show hi + 1 - lo = (hi - lo) + 1 by omega, List.range_succ, List.map_append]
  simp only [List.map_cons, List.map_nil]
  rw [show lo + (hi - lo) = hi by omega]

theorem pushRange_empty (d lo hi : Nat) (f : Bool) (h : hi ≤ lo) : pushRange d lo hi f = [] := by
  unfold pushRange
  rw [show hi - lo = 0 by omega]; rfl

/-- a pushed range of cells of one depth -/
theorem Seg.pushRange (D d lo hi : Nat) (f : Bool) (hd : d ≤ D) (h : lo ≤ hi) :
    Seg D (pushRange d lo hi f) (P D d lo) (P D d hi) (fun _ => Tri.ofFlag f) := by
  induction hi with
  | zero =>
    have : lo = 0 := by omega
    subst this
    rw [pushRange_empty d 0 0 f (Nat.le_refl _)]
    exact Seg.nil D _ _
  | succ n ih =>
    by_cases hl : lo = n + 1
    · subst hl
      rw [pushRange_empty d _ _ f (Nat.le_refl _)]
      exact Seg.nil D _ _
    · have hln : lo ≤ n := by omega
      rw [pushRange_succ d lo n f hln]
      exact Seg.append (P_mono D d hln) (P_mono D d (by omega)) (ih hln) (Seg.single D d n f hd)

theorem P_shift_le (D d k th : Nat) (hD : d + k ≤ D) : P D d (th >>> (2 * k)) ≤ P D (d + k) th := by
  unfold P
  have e : 4 ^ (D - d) = 4 ^ k * 4 ^ (D - (d + k)) := by rw [← Nat.pow_add]; congr 1; omega
  rw [e, Nat.shiftRight_eq_div_pow, Nat.pow_mul, ← Nat.mul_assoc]
  apply Nat.mul_le_mul_right
  exact Nat.div_mul_le_self th ((2 ^ 2) ^ k)

/-- `go_down` from `(dcur, h)` to `(dcur + n, th)` -/
theorem Seg.goDownAux (D : Nat) (f : Bool) : ∀ (n dcur h th : Nat), dcur + n ≤ D → h ≤ th >>> (2 * n) →
    Seg D (goDownAux n dcur h th f) (P D dcur h) (P D (dcur + n) th) (fun _ => Tri.ofFlag f) := by
  intro n
  induction n with
  | zero =>
    intro dcur h th hD hh
    simp only [Nat.mul_zero, Nat.shiftRight_zero] at hh
    simp only [Bmoc.goDownAux, Nat.add_zero]
    exact Seg.pushRange D dcur h th f (by omega) hh
  | succ n ih =>
    intro dcur h th hD hh
    simp only [Bmoc.goDownAux]
    have ht : (th >>> (2 * (n + 1))) <<< 2 = 4 * (th >>> (2 * (n + 1))) := by rw [Nat.shiftLeft_eq]; omega
    have hle : (th >>> (2 * (n + 1))) <<< 2 ≤ th >>> (2 * n) := by
      rw [ht, show 2 * (n + 1) = 2 * n + 2 by ring, Nat.shiftRight_add, Nat.shiftRight_eq_div_pow (th >>> (2 * n)) 2]
      omega
    have s1 := Seg.pushRange D dcur h (th >>> (2 * (n + 1))) f (by omega) hh
    have s2 := ih (dcur + 1) ((th >>> (2 * (n + 1))) <<< 2) th (by omega) hle
    have hP : P D (dcur + 1) ((th >>> (2 * (n + 1))) <<< 2) = P D dcur (th >>> (2 * (n + 1))) := by
      rw [ht]; exact P_child D dcur _ (by omega)
    rw [hP, show dcur + 1 + n = dcur + (n + 1) by omega] at s2
    exact Seg.append (P_mono D dcur hh) (P_shift_le D dcur (n + 1) th hD) s1 s2

/-- `go_down(d, h, td, th)` -/
theorem Seg.goDown (D d h td th : Nat) (f : Bool) (hd : d ≤ td) (hD : td ≤ D) (hh : h ≤ th >>> (2 * (td - d))) :
    Seg D (Bmoc.goDown d h td th f) (P D d h) (P D td th) (fun _ => Tri.ofFlag f) := by
  have := Seg.goDownAux D f (td - d) d h th (by omega) hh
  rwa [show d + (td - d) = td by omega] at this

/-- the end of a cell is not after the end of its ancestor `k` levels up -/
theorem P_end_le_anc (D d k m : Nat) (hk : k ≤ d) (hD : d ≤ D) :
    P D d (m + 1) ≤ P D (d - k) ((m >>> (2 * k)) + 1) := by
  unfold P
  have e : 4 ^ (D - (d - k)) = 4 ^ k * 4 ^ (D - d) := by rw [← Nat.pow_add]; congr 1; omega
  rw [e, ← Nat.mul_assoc]
  apply Nat.mul_le_mul_right
  rw [Nat.shiftRight_eq_div_pow, Nat.pow_mul]
  have hp : 0 < (2 ^ 2) ^ k := Nat.pow_pos (by decide)
  have := Nat.lt_div_mul_add (a := m) hp
  show m + 1 ≤ (m / (2 ^ 2) ^ k + 1) * 4 ^ k
  have e4 : (2 ^ 2 : Nat) ^ k = 4 ^ k := by norm_num
  rw [e4] at this ⊢
  rw [Nat.add_mul]; omega

/-- `go_up(dd)` from cell `(d, h)`: emits everything from the end of `(d, h)` to the end of its ancestor `dd` levels up -/
theorem Seg.goUp (D : Nat) (f : Bool) : ∀ (dd d h : Nat), dd ≤ d → d ≤ D →
    (goUp dd d h f).2.1 = d - dd ∧ (goUp dd d h f).2.2 = (h >>> (2 * dd)) + 1 ∧
    Seg D (goUp dd d h f).1 (P D d (h + 1)) (P D (d - dd) ((h >>> (2 * dd)) + 1)) (fun _ => Tri.ofFlag f) := by
  intro dd
  induction dd with
  | zero =>
    intro d h _ _
    refine ⟨by simp [Bmoc.goUp], by simp [Bmoc.goUp], ?_⟩
    simp only [Bmoc.goUp, Nat.sub_zero, Nat.mul_zero, Nat.shiftRight_zero]
    exact Seg.nil D _ _
  | succ dd ih =>
    intro d h hdd hD
    simp only [Bmoc.goUp]
    obtain ⟨i1, i2, i3⟩ := ih (d - 1) (h >>> 2) (by omega) (by omega)
    have hsh : (h >>> 2) >>> (2 * dd) = h >>> (2 * (dd + 1)) := by
      rw [← Nat.shiftRight_add]; congr 1; ring
    refine ⟨by rw [i1]; omega, by rw [i2, hsh], ?_⟩
    have hor : (h ||| 3) + 1 = 4 * ((h >>> 2) + 1) := by
      have h1 : h ||| 3 = 4 * (h / 4) + 3 := by
        have e : h = (h / 4) <<< 2 ||| (h % 4) := by
          rw [Nat.shiftLeft_eq]
          have := Nat.shiftLeft_add_eq_or_of_lt (i := 2) (b := h % 4) (Nat.mod_lt _ (by omega)) (h / 4)
          rw [Nat.shiftLeft_eq] at this
          omega
        have e3 : (h / 4) <<< 2 ||| 3 = 4 * (h / 4) + 3 := by
          have := Nat.shiftLeft_add_eq_or_of_lt (i := 2) (b := 3) (by omega) (h / 4)
          rw [Nat.shiftLeft_eq] at this ⊢
          omega
        conv => lhs; rw [e]
        rw [Nat.or_assoc]
        have : h % 4 ||| 3 = 3 := by
          have : h % 4 < 4 := Nat.mod_lt _ (by omega)
          interval_cases (h % 4) <;> rfl
        rw [this, e3]
      rw [h1, Nat.shiftRight_eq_div_pow]; omega
    have s1 := Seg.pushRange D d (h + 1) ((h ||| 3) + 1) f hD (by
      have : h ≤ h ||| 3 := Nat.left_le_or
      omega)
    have hP1 : P D d ((h ||| 3) + 1) = P D (d - 1) ((h >>> 2) + 1) := by
      rw [hor]; exact P_parent D d _ (by omega) hD
    have hmono : P D d (h + 1) ≤ P D d ((h ||| 3) + 1) := by
      apply P_mono
      have : h ≤ h ||| 3 := Nat.left_le_or
      omega
    rw [hP1] at s1 hmono
    rw [show d - 1 - dd = d - (dd + 1) by omega, hsh] at i3
    refine Seg.append hmono ?_ s1 i3
    have := P_end_le_anc D (d - 1) dd (h >>> 2) (by omega) (by omega)
    rwa [show d - 1 - dd = d - (dd + 1) by omega, hsh] at this

/-! ## layer 2: `dd_4_go_up` (highest differing bit pair of the two cell numbers) -/

theorem eq_of_xor_eq_zero {a b : Nat} (h : a ^^^ b = 0) : a = b := by
  apply Nat.eq_of_testBit_eq
  intro i
  have := congrArg (fun n => Nat.testBit n i) h
  simp only [Nat.testBit_xor, Nat.zero_testBit] at this
  cases ha : a.testBit i <;> cases hb : b.testBit i <;> simp_all

/-- above the highest set bit of `a ^^^ b` the two numbers agree; at that bit they differ -/
theorem xor_high {a b : Nat} (hne : a ≠ b) :
    a >>> ((a ^^^ b).log2 + 1) = b >>> ((a ^^^ b).log2 + 1) ∧ a >>> (a ^^^ b).log2 ≠ b >>> (a ^^^ b).log2 := by
  have hx : a ^^^ b ≠ 0 := fun h => hne (eq_of_xor_eq_zero h)
  have h1 : a ^^^ b < 2 ^ ((a ^^^ b).log2 + 1) := Nat.lt_log2_self
  have h2 : 2 ^ (a ^^^ b).log2 ≤ a ^^^ b := Nat.log2_self_le hx
  constructor
  · apply eq_of_xor_eq_zero
    rw [← Nat.shiftRight_xor_distrib, Nat.shiftRight_eq_div_pow]
    exact Nat.div_eq_of_lt h1
  · intro heq
    have : (a ^^^ b) >>> (a ^^^ b).log2 = 0 := by rw [Nat.shiftRight_xor_distrib, heq, Nat.xor_self]
    rw [Nat.shiftRight_eq_div_pow] at this
    have hp : 0 < 2 ^ (a ^^^ b).log2 := Nat.two_pow_pos _
    have := (Nat.div_eq_zero_iff.mp this)
    rcases this with h0 | h0
    · omega
    · omega

theorem shiftRight_mono {a b : Nat} (h : a ≤ b) (s : Nat) : a >>> s ≤ b >>> s := by
  rw [Nat.shiftRight_eq_div_pow, Nat.shiftRight_eq_div_pow]; exact Nat.div_le_div_right h

theorem shr_eq_mono {a b s t : Nat} (h : a >>> s = b >>> s) (hst : s ≤ t) : a >>> t = b >>> t := by
  obtain ⟨u, rfl⟩ := Nat.exists_eq_add_of_le hst
  rw [Nat.shiftRight_add, Nat.shiftRight_add, h]

/-- for `a < b` and `k = log2(a xor b) / 2`: the pairs above `k` agree and `a >> 2k < b >> 2k` -/
theorem pair_high {a b : Nat} (hlt : a < b) :
    let k := (a ^^^ b).log2 / 2
    a >>> (2 * k + 2) = b >>> (2 * k + 2) ∧ a >>> (2 * k) < b >>> (2 * k) := by
  intro k
  obtain ⟨h1, h2⟩ := xor_high (Nat.ne_of_lt hlt)
  set m := (a ^^^ b).log2 with hm
  have hk1 : 2 * k ≤ m := by omega
  have hk2 : m + 1 ≤ 2 * k + 2 := by omega
  constructor
  · exact shr_eq_mono h1 hk2
  · have hle := shiftRight_mono (Nat.le_of_lt hlt) (2 * k)
    rcases Nat.lt_or_eq_of_le hle with h | h
    · exact h
    · exfalso
      apply h2
      exact shr_eq_mono h hk1

theorem lz64_eq (x : Nat) (h0 : x ≠ 0) (hlt : x < 2 ^ 64) : 63 - lz64 x = x.log2 := by
  unfold lz64
  rw [Nat.mod_eq_of_lt hlt]
  simp only [h0, if_false]
  have : x.log2 < 64 := (Nat.log2_lt h0).mpr hlt
  omega

theorem twelve_pow_lt (d : Nat) (hd : d ≤ 29) : 12 * 4 ^ d < 2 ^ 62 := by
  have : 4 ^ d ≤ 4 ^ 29 := Nat.pow_le_pow_right (by decide) hd
  calc 12 * 4 ^ d ≤ 12 * 4 ^ 29 := Nat.mul_le_mul_left _ this
    _ < 2 ^ 62 := by decide

/-- **`dd_4_go_up`**: for a cell `(d, h)` lying entirely before `(nd, nh)`, going up `dd` levels reaches an ancestor whose
    next sibling is at or before the ancestor of the target at that depth, and that depth is not deeper than the target -/
theorem dd4GoUp_spec (D d h nd nh : Nat) (hD : D ≤ 29) (hd : d ≤ D) (hnd : nd ≤ D) (hh : h < 12 * 4 ^ d)
    (hnh : nh < 12 * 4 ^ nd) (hbefore : P D d (h + 1) ≤ P D nd nh) :
    dd4GoUp d h nd nh ≤ d ∧ d - dd4GoUp d h nd nh ≤ nd ∧
    (h >>> (2 * dd4GoUp d h nd nh)) + 1 ≤ nh >>> (2 * (nd - (d - dd4GoUp d h nd nh))) := by
  -- the target at depth `d`
  set T := if nd < d then nh <<< ((d - nd) <<< 1) else nh >>> ((nd - d) <<< 1) with hT
  have hsl : ∀ n : Nat, n <<< 1 = 2 * n := fun n => by rw [Nat.shiftLeft_eq]; omega
  have hpD : 0 < 4 ^ (D - d) := Nat.pow_pos (by decide)
  -- `h < T < 12·4^d`
  have hTfacts : h + 1 ≤ T ∧ T < 12 * 4 ^ d := by
    unfold P at hbefore
    by_cases c : nd < d
    · simp only [hT, c, if_true, hsl]
      rw [Nat.shiftLeft_eq, Nat.pow_mul]
      have e : 4 ^ (D - nd) = 4 ^ (d - nd) * 4 ^ (D - d) := by rw [← Nat.pow_add]; congr 1; omega
      rw [e, ← Nat.mul_assoc] at hbefore
      have h1 := Nat.le_of_mul_le_mul_right hbefore hpD
      have e2 : 4 ^ d = 4 ^ nd * 4 ^ (d - nd) := by rw [← Nat.pow_add]; congr 1; omega
      refine ⟨by simpa using h1, ?_⟩
      rw [e2, ← Nat.mul_assoc]
      exact Nat.mul_lt_mul_of_pos_right hnh (Nat.pow_pos (by decide))
    · simp only [hT, c, if_false, hsl]
      rw [Nat.shiftRight_eq_div_pow, Nat.pow_mul]
      have e : 4 ^ (D - d) = 4 ^ (nd - d) * 4 ^ (D - nd) := by rw [← Nat.pow_add]; congr 1; omega
      rw [e, ← Nat.mul_assoc] at hbefore
      have h1 := Nat.le_of_mul_le_mul_right hbefore (Nat.pow_pos (by decide) : 0 < 4 ^ (D - nd))
      have hp : 0 < (2 ^ 2) ^ (nd - d) := Nat.pow_pos (by decide)
      have e4 : (2 ^ 2 : Nat) ^ (nd - d) = 4 ^ (nd - d) := by norm_num
      refine ⟨?_, ?_⟩
      · rw [e4]; exact (Nat.le_div_iff_mul_le (Nat.pow_pos (by decide))).mpr h1
      · rw [e4]
        apply Nat.div_lt_of_lt_mul
        have e2 : 4 ^ nd = 4 ^ (nd - d) * 4 ^ d := by rw [← Nat.pow_add]; congr 1; omega
        rw [e2] at hnh
        calc nh < 12 * (4 ^ (nd - d) * 4 ^ d) := hnh
          _ = 4 ^ (nd - d) * (12 * 4 ^ d) := by ring
  obtain ⟨hlt', hTlt⟩ := hTfacts
  have hlt : h < T := by omega
  have hne : h ^^^ T ≠ 0 := fun h0 => (Nat.ne_of_lt hlt) (eq_of_xor_eq_zero h0)
  have h62 := twelve_pow_lt d (by omega)
  have hx64 : h ^^^ T < 2 ^ 64 := by
    have : h ^^^ T < 2 ^ 62 := Nat.xor_lt_two_pow (by omega) (by omega)
    exact Nat.lt_trans this (by decide)
  obtain ⟨ph1, ph2⟩ := pair_high hlt
  set k := (h ^^^ T).log2 / 2 with hk
  have hdd : dd4GoUp d h nd nh = min k d := by
    unfold dd4GoUp
    simp only [← hT]
    have : (h ^^^ T != 0) = true := by simpa using hne
    simp only [this, if_true]
    rw [lz64_eq _ hne hx64, Nat.shiftRight_eq_div_pow]
  rw [hdd]
  -- shifting the target
  have hTshift : ∀ s, d - s ≤ nd → s ≤ d → T >>> (2 * s) = nh >>> (2 * (nd - (d - s))) := by
    intro s hs1 hs2
    by_cases c : nd < d
    · simp only [hT, c, if_true, hsl]
      have e : 2 * s = 2 * (d - nd) + 2 * (nd - (d - s)) := by omega
      rw [e, Nat.shiftRight_add, Nat.shiftLeft_shiftRight]
    · simp only [hT, c, if_false, hsl]
      rw [← Nat.shiftRight_add]; congr 1; omega
  by_cases ckd : k ≤ d
  · rw [Nat.min_eq_left ckd]
    -- `d - k ≤ nd`
    have hb : d - k ≤ nd := by
      by_cases c : nd < d
      · -- the low `2(d-nd)` bits of `T` are zero: a difference must show at a pair `≥ d - nd`
        by_contra hcon
        have hk2 : 2 * k + 2 ≤ 2 * (d - nd) := by omega
        have hTz : T = (T >>> (2 * k + 2)) <<< (2 * k + 2) := by
          have hTe : T = nh * 2 ^ (2 * (d - nd)) := by simp only [hT, c, if_true, hsl, Nat.shiftLeft_eq]
          rw [Nat.shiftLeft_eq, Nat.shiftRight_eq_div_pow]
          have hdvd : 2 ^ (2 * k + 2) ∣ T := by
            rw [hTe]; exact Dvd.dvd.mul_left (Nat.pow_dvd_pow 2 hk2) nh
          exact (Nat.div_mul_cancel hdvd).symm
        have : (h >>> (2 * k + 2)) <<< (2 * k + 2) ≤ h := by
          rw [Nat.shiftLeft_eq, Nat.shiftRight_eq_div_pow]; exact Nat.div_mul_le_self _ _
        rw [ph1, ← hTz] at this
        omega
      · omega
    refine ⟨ckd, hb, ?_⟩
    rw [← hTshift k hb ckd]
    omega
  · have hdk : d ≤ k := by omega
    rw [Nat.min_eq_right hdk]
    refine ⟨Nat.le_refl _, by omega, ?_⟩
    rw [← hTshift d (by omega) (Nat.le_refl _)]
    have hle := shiftRight_mono (Nat.le_of_lt hlt) (2 * d)
    rcases Nat.lt_or_eq_of_le hle with h' | h'
    · omega
    · exfalso
      have := shr_eq_mono h' (show 2 * d ≤ 2 * k by omega)
      omega

/-! ## layer 3: the loop of `not` -/

/-- cell number in range for its depth -/
def InR (c : Cell) : Prop := c.hash < 12 * 4 ^ c.depth

theorem Seg.empty_abs (D a b : Nat) (g : Nat → Tri) (h : ∀ x, a ≤ x → x < b → g x = .abs) : Seg D [] a b g :=
  ⟨trivial, fun c hc => by simp at hc, fun x h1 h2 => by rw [h x h1 h2]; rfl⟩

theorem tri_not_ofFlag_true : Tri.not (Tri.ofFlag true) = .abs := rfl
theorem tri_not_ofFlag_false : Tri.not (Tri.ofFlag false) = .part := rfl

/-- the piece emitted for one cell `c` after cursor `(d, h)`: everything from the end of `(d, h)` to the end of `c` -/
theorem Seg.notStep (D : Nat) (hD : D ≤ 29) (d h : Nat) (c : Cell) (rest : List Cell) (hd : d ≤ D) (hh : h < 12 * 4 ^ d)
    (hw : WF D (c :: rest)) (hr : InR c) (hbefore : P D d (h + 1) ≤ lo D c) :
    Seg D ((Bmoc.goUp (dd4GoUp d h c.depth c.hash) d h true).1 ++
        Bmoc.goDown (Bmoc.goUp (dd4GoUp d h c.depth c.hash) d h true).2.1 (Bmoc.goUp (dd4GoUp d h c.depth c.hash) d h true).2.2
          c.depth c.hash true ++ (if c.full then [] else [c]))
      (P D d (h + 1)) (hi D c) (fun x => Tri.not (stOf D (c :: rest) x)) := by
  have hcd : c.depth ≤ D := hw.1
  obtain ⟨s1, s2, s3⟩ := dd4GoUp_spec D d h c.depth c.hash hD hd hcd hh hr hbefore
  set dd := dd4GoUp d h c.depth c.hash with hdd
  obtain ⟨u1, u2, u3⟩ := Seg.goUp D true dd d h s1 hd
  rw [u1, u2]
  have hdown := Seg.goDown D (d - dd) ((h >>> (2 * dd)) + 1) c.depth c.hash true s2 hcd s3
  -- the common denotation on each piece
  have gBefore : ∀ x, x < lo D c → Tri.not (stOf D (c :: rest) x) = Tri.ofFlag true := by
    intro x hx
    have : stOf D (c :: rest) x = .abs := by
      apply stOf_absent_of_lt
      intro c' hc'
      rcases List.mem_cons.1 hc' with rfl | hc'
      · exact hx
      · have := hw.2.1 c' hc'; have := lo_lt_hi D c; omega
    rw [this]; rfl
  have gIn : ∀ x, lo D c ≤ x → x < hi D c → Tri.not (stOf D (c :: rest) x) = Tri.not (Tri.ofFlag c.full) := by
    intro x h1 h2
    rw [stOf_cons]; simp [h1, h2]
  have hlohi := lo_lt_hi D c
  have b1 : P D d (h + 1) ≤ P D (d - dd) ((h >>> (2 * dd)) + 1) := P_end_le_anc D d dd h s1 hd
  have b2 : P D (d - dd) ((h >>> (2 * dd)) + 1) ≤ lo D c := by
    have := P_shift_le D (d - dd) (c.depth - (d - dd)) c.hash (by omega)
    rw [show d - dd + (c.depth - (d - dd)) = c.depth by omega] at this
    exact Nat.le_trans (P_mono D (d - dd) s3) this
  have p1 : Seg D (Bmoc.goUp dd d h true).1 (P D d (h + 1)) (P D (d - dd) ((h >>> (2 * dd)) + 1))
      (fun x => Tri.not (stOf D (c :: rest) x)) :=
    u3.mono_g (fun x _ hx => (gBefore x (by omega)).symm)
  have p2 : Seg D (Bmoc.goDown (d - dd) ((h >>> (2 * dd)) + 1) c.depth c.hash true)
      (P D (d - dd) ((h >>> (2 * dd)) + 1)) (lo D c) (fun x => Tri.not (stOf D (c :: rest) x)) :=
    hdown.mono_g (fun x _ hx => (gBefore x hx).symm)
  have p3 : Seg D (if c.full then [] else [c]) (lo D c) (hi D c) (fun x => Tri.not (stOf D (c :: rest) x)) := by
    by_cases hf : c.full = true
    · simp only [hf, if_true]
      apply Seg.empty_abs
      intro x h1 h2
      rw [gIn x h1 h2, hf]; rfl
    · have hf' : c.full = false := by simpa using hf
      simp only [hf', Bool.false_eq_true, if_false]
      have hs := Seg.single D c.depth c.hash false hcd
      have hc : (⟨c.depth, c.hash, false⟩ : Cell) = c := by cases c; simp_all
      rw [hc] at hs
      refine ⟨hs.wf, hs.inside, ?_⟩
      intro x h1 h2
      rw [hs.sem x h1 h2, gIn x h1 h2, hf']; rfl
  exact Seg.append (Nat.le_trans b1 b2) (Nat.le_of_lt hlohi) (Seg.append b1 b2 p1 p2) p3

theorem inR_pos (D : Nat) (c : Cell) (hd : c.depth ≤ D) : True := trivial

/-- **the loop of `not`**: from cursor `(d, h)` (everything up to the end of `(d, h)` already emitted) over the remaining
    cells `rest` -/
theorem Seg.notLoop (D : Nat) (hD : D ≤ 29) : ∀ (rest : List Cell) (d h : Nat), d ≤ D → h < 12 * 4 ^ d →
    WF D rest → (∀ c ∈ rest, InR c) → (∀ c ∈ rest, P D d (h + 1) ≤ lo D c) →
    (Bmoc.notLoop rest d h).2.1 ≤ D ∧ (Bmoc.notLoop rest d h).2.2 < 12 * 4 ^ (Bmoc.notLoop rest d h).2.1 ∧
    P D d (h + 1) ≤ P D (Bmoc.notLoop rest d h).2.1 ((Bmoc.notLoop rest d h).2.2 + 1) ∧
    (∀ c ∈ rest, hi D c ≤ P D (Bmoc.notLoop rest d h).2.1 ((Bmoc.notLoop rest d h).2.2 + 1)) ∧
    Seg D (Bmoc.notLoop rest d h).1 (P D d (h + 1)) (P D (Bmoc.notLoop rest d h).2.1 ((Bmoc.notLoop rest d h).2.2 + 1))
      (fun x => Tri.not (stOf D rest x)) := by
  intro rest
  induction rest with
  | nil =>
    intro d h hd hh _ _ _
    simp only [Bmoc.notLoop]
    refine ⟨hd, hh, Nat.le_refl _, fun c hc => by simp at hc, Seg.nil D _ _⟩
  | cons c rest ih =>
    intro d h hd hh hw hr hb
    have hcd : c.depth ≤ D := hw.1
    have hrc : InR c := hr c (by simp)
    obtain ⟨i1, i2, i3, i4, i5⟩ := ih c.depth c.hash hcd hrc hw.tail (fun c' hc' => hr c' (by simp [hc']))
      (fun c' hc' => hw.2.1 c' hc')
    have step := Seg.notStep D hD d h c rest hd hh hw hrc (hb c (by simp))
    simp only [Bmoc.notLoop]
    refine ⟨i1, i2, ?_, ?_, ?_⟩
    · have := lo_lt_hi D c
      have hb0 := hb c (by simp)
      have : P D d (h + 1) ≤ hi D c := by omega
      exact Nat.le_trans this i3
    · intro c' hc'
      rcases List.mem_cons.1 hc' with rfl | hc'
      · exact i3
      · exact i4 c' hc'
    · have htail : Seg D (Bmoc.notLoop rest c.depth c.hash).1 (hi D c)
          (P D (Bmoc.notLoop rest c.depth c.hash).2.1 ((Bmoc.notLoop rest c.depth c.hash).2.2 + 1))
          (fun x => Tri.not (stOf D (c :: rest) x)) := by
        refine i5.mono_g ?_
        intro x h1 _
        rw [stOf_cons]
        have : ¬ (lo D c ≤ x ∧ x < hi D c) := by
          have : hi D c = P D c.depth (c.hash + 1) := rfl
          omega
        simp [this]
      have hb0 := hb c (by simp)
      have hlh := lo_lt_hi D c
      have hab : P D d (h + 1) ≤ hi D c := by omega
      have := Seg.append hab i3 step htail
      simpa [List.append_assoc] using this

theorem P_zero (D h : Nat) : P D 0 h = h * 4 ^ D := by unfold P; simp

/-- **`not`, complete**: the output is well formed, lies in `[0, 12·4^D)` and denotes the pointwise `not` of the input -/
theorem Seg.notCells (D : Nat) (hD : D ≤ 29) (l : List Cell) (hw : WF D l) (hr : ∀ c ∈ l, InR c) :
    Seg D (Bmoc.notCells l) 0 (12 * 4 ^ D) (fun x => Tri.not (stOf D l x)) := by
  cases l with
  | nil =>
    simp only [Bmoc.notCells]
    have := Seg.pushRange D 0 0 12 true (Nat.zero_le _) (by omega)
    rw [P_zero, P_zero, Nat.zero_mul] at this
    exact this.mono_g (fun x _ _ => rfl)
  | cons c rest =>
    have hcd : c.depth ≤ D := hw.1
    have hrc : InR c := hr c (by simp)
    obtain ⟨i1, i2, i3, i4, i5⟩ := Seg.notLoop D hD rest c.depth c.hash hcd hrc hw.tail
      (fun c' hc' => hr c' (by simp [hc'])) (fun c' hc' => hw.2.1 c' hc')
    simp only [Bmoc.notCells]
    set d := (Bmoc.notLoop rest c.depth c.hash).2.1 with hd
    set h := (Bmoc.notLoop rest c.depth c.hash).2.2 with hh
    have hlohi := lo_lt_hi D c
    have hhi : hi D c = P D c.depth (c.hash + 1) := rfl
    -- denotation facts
    have gBefore : ∀ x, x < lo D c → Tri.not (stOf D (c :: rest) x) = Tri.ofFlag true := by
      intro x hx
      have : stOf D (c :: rest) x = .abs := by
        apply stOf_absent_of_lt
        intro c' hc'
        rcases List.mem_cons.1 hc' with rfl | hc'
        · exact hx
        · have := hw.2.1 c' hc'; omega
      rw [this]; rfl
    have gIn : ∀ x, lo D c ≤ x → x < hi D c → Tri.not (stOf D (c :: rest) x) = Tri.not (Tri.ofFlag c.full) := by
      intro x h1 h2
      rw [stOf_cons]; simp [h1, h2]
    have gAfter : ∀ x, P D d (h + 1) ≤ x → Tri.not (stOf D (c :: rest) x) = Tri.ofFlag true := by
      intro x hx
      have : stOf D (c :: rest) x = .abs := by
        apply stOf_absent_of_ge
        intro c' hc'
        rcases List.mem_cons.1 hc' with rfl | hc'
        · rw [hhi]; omega
        · have := i4 c' hc'; omega
      rw [this]; rfl
    -- the five pieces
    have q1 : Seg D (Bmoc.goDown 0 0 c.depth c.hash true) 0 (lo D c) (fun x => Tri.not (stOf D (c :: rest) x)) := by
      have := Seg.goDown D 0 0 c.depth c.hash true (Nat.zero_le _) hcd (Nat.zero_le _)
      rw [P_zero, Nat.zero_mul] at this
      exact this.mono_g (fun x _ hx => (gBefore x hx).symm)
    have q2 : Seg D (if c.full then [] else [c]) (lo D c) (hi D c) (fun x => Tri.not (stOf D (c :: rest) x)) := by
      by_cases hf : c.full = true
      · simp only [hf, if_true]
        apply Seg.empty_abs
        intro x h1 h2
        rw [gIn x h1 h2, hf]; rfl
      · have hf' : c.full = false := by simpa using hf
        simp only [hf', Bool.false_eq_true, if_false]
        have hs := Seg.single D c.depth c.hash false hcd
        have hc : (⟨c.depth, c.hash, false⟩ : Cell) = c := by cases c; simp_all
        rw [hc] at hs
        refine ⟨hs.wf, hs.inside, ?_⟩
        intro x h1 h2
        rw [hs.sem x h1 h2, gIn x h1 h2, hf']; rfl
    have q3 : Seg D (Bmoc.notLoop rest c.depth c.hash).1 (hi D c) (P D d (h + 1))
        (fun x => Tri.not (stOf D (c :: rest) x)) := by
      refine i5.mono_g ?_
      intro x h1 _
      rw [stOf_cons]
      have : ¬ (lo D c ≤ x ∧ x < hi D c) := by omega
      simp [this]
    obtain ⟨u1, u2, u3⟩ := Seg.goUp D true d d h (Nat.le_refl _) i1
    rw [Nat.sub_self] at u1 u3
    have hbase : (h >>> (2 * d)) + 1 ≤ 12 := by
      have : h >>> (2 * d) < 12 := by
        rw [Nat.shiftRight_eq_div_pow, Nat.pow_mul]
        apply Nat.div_lt_of_lt_mul
        have e4 : (2 ^ 2 : Nat) ^ d = 4 ^ d := by norm_num
        rw [e4, Nat.mul_comm]; exact i2
      omega
    have q4 : Seg D (Bmoc.goUp d d h true).1 (P D d (h + 1)) (P D 0 ((h >>> (2 * d)) + 1))
        (fun x => Tri.not (stOf D (c :: rest) x)) :=
      u3.mono_g (fun x hx _ => (gAfter x hx).symm)
    have q5 : Seg D (Bmoc.pushRange 0 ((h >>> (2 * d)) + 1) 12 true) (P D 0 ((h >>> (2 * d)) + 1)) (12 * 4 ^ D)
        (fun x => Tri.not (stOf D (c :: rest) x)) := by
      have := Seg.pushRange D 0 ((h >>> (2 * d)) + 1) 12 true (Nat.zero_le _) hbase
      rw [P_zero D 12] at this
      refine this.mono_g (fun x hx _ => (gAfter x ?_).symm)
      have := P_end_le_anc D d d h (Nat.le_refl _) i1
      rw [Nat.sub_self] at this
      omega
    have b45 : P D d (h + 1) ≤ P D 0 ((h >>> (2 * d)) + 1) := by
      have := P_end_le_anc D d d h (Nat.le_refl _) i1
      rwa [Nat.sub_self] at this
    have b5 : P D 0 ((h >>> (2 * d)) + 1) ≤ 12 * 4 ^ D := by
      rw [P_zero]; exact Nat.mul_le_mul_right _ hbase
    have hb3 : hi D c ≤ P D d (h + 1) := by rw [hhi]; exact i3
    rw [u2]
    have r1 := Seg.append (Nat.zero_le _) (Nat.le_of_lt hlohi) q1 q2
    have r2 := Seg.append (Nat.zero_le _) hb3 r1 q3
    have r3 := Seg.append (Nat.zero_le _) b45 r2 q4
    have r4 := Seg.append (Nat.zero_le _) b5 r3 q5
    simpa [List.append_assoc] using r4

theorem inR_of_hi (D : Nat) (c : Cell) (hd : c.depth ≤ D) (h : hi D c ≤ 12 * 4 ^ D) : InR c := by
  unfold hi at h
  unfold InR
  have e : 4 ^ D = 4 ^ c.depth * 4 ^ (D - c.depth) := by rw [← Nat.pow_add]; congr 1; omega
  have hp : 0 < 4 ^ (D - c.depth) := Nat.pow_pos (by decide)
  rw [e, ← Nat.mul_assoc] at h
  have := Nat.le_of_mul_le_mul_right h hp
  omega

/-- `not` on cell lists, packaged: semantics, well-formedness, range -/
theorem notCells_spec (D : Nat) (hD : D ≤ 29) (l : List Cell) (hw : WF D l) (hr : ∀ c ∈ l, InR c) :
    (∀ x, x < 12 * 4 ^ D → stOf D (notCells l) x = Tri.not (stOf D l x)) ∧ WF D (notCells l) ∧
    (∀ c ∈ notCells l, InR c) := by
  have s := Seg.notCells D hD l hw hr
  refine ⟨fun x hx => s.sem x (Nat.zero_le _) hx, s.wf, ?_⟩
  intro c hc
  exact inR_of_hi D c (s.wf.depth_le c hc) (s.inside c hc).2

/-! ## flags of the cells produced by `not` -/

theorem mem_pushRange_flag {d lo hi : Nat} {f : Bool} {c : Cell} (h : c ∈ pushRange d lo hi f) : c.full = f := by
  unfold pushRange at h
  obtain ⟨k, _, rfl⟩ := List.mem_map.1 h
  rfl

theorem mem_goDownAux_flag (f : Bool) : ∀ (n dcur h th : Nat) (c : Cell), c ∈ goDownAux n dcur h th f → c.full = f := by
  intro n
  induction n with
  | zero => intro dcur h th c hc; simp only [goDownAux] at hc; exact mem_pushRange_flag hc
  | succ n ih =>
    intro dcur h th c hc
    simp only [goDownAux, List.mem_append] at hc
    rcases hc with hc | hc
    · exact mem_pushRange_flag hc
    · exact ih _ _ _ c hc

theorem mem_goUp_flag (f : Bool) : ∀ (dd d h : Nat) (c : Cell), c ∈ (goUp dd d h f).1 → c.full = f := by
  intro dd
  induction dd with
  | zero => intro d h c hc; simp [goUp] at hc
  | succ dd ih =>
    intro d h c hc
    simp only [goUp, List.mem_append] at hc
    rcases hc with hc | hc
    · exact mem_pushRange_flag hc
    · exact ih _ _ c hc

theorem mem_notLoop_flag : ∀ (rest : List Cell) (d h : Nat) (c : Cell), c ∈ (notLoop rest d h).1 →
    c.full = true ∨ (c ∈ rest ∧ c.full = false) := by
  intro rest
  induction rest with
  | nil => intro d h c hc; simp [notLoop] at hc
  | cons c0 rest ih =>
    intro d h c hc
    simp only [notLoop, List.mem_append] at hc
    rcases hc with ((hc | hc) | hc) | hc
    · exact Or.inl (mem_goUp_flag true _ _ _ c hc)
    · exact Or.inl (mem_goDownAux_flag true _ _ _ _ c hc)
    · by_cases hf : c0.full = true
      · simp [hf] at hc
      · simp only [hf, Bool.false_eq_true, if_false, List.mem_singleton] at hc
        subst hc
        exact Or.inr ⟨by simp, by simpa using hf⟩
    · rcases ih _ _ c hc with h1 | ⟨h1, h2⟩
      · exact Or.inl h1
      · exact Or.inr ⟨by simp [h1], h2⟩

/-- every cell produced by `not` is full, or is a partial cell of the operand kept as it is -/
theorem mem_notCells_flag (l : List Cell) (c : Cell) (hc : c ∈ notCells l) : c.full = true ∨ (c ∈ l ∧ c.full = false) := by
  cases l with
  | nil => simp only [notCells] at hc; exact Or.inl (mem_pushRange_flag hc)
  | cons c0 rest =>
    simp only [notCells, List.mem_append] at hc
    rcases hc with (((hc | hc) | hc) | hc) | hc
    · exact Or.inl (mem_goDownAux_flag true _ _ _ _ c hc)
    · by_cases hf : c0.full = true
      · simp [hf] at hc
      · simp only [hf, Bool.false_eq_true, if_false, List.mem_singleton] at hc
        subst hc
        exact Or.inr ⟨by simp, by simpa using hf⟩
    · rcases mem_notLoop_flag _ _ _ c hc with h1 | ⟨h1, h2⟩
      · exact Or.inl h1
      · exact Or.inr ⟨by simp [h1], h2⟩
    · exact Or.inl (mem_goUp_flag true _ _ _ c hc)
    · exact Or.inl (mem_pushRange_flag hc)

end Hpx.Bmoc
