import HpxVerif.Model.Driver

def main : IO Unit := do
  let hin ← IO.getStdin
  let hout ← IO.getStdout
  Hpx.Driver.loop hin hout {}
