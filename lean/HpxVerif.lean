import HpxVerif.Model.Bits
