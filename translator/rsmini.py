"""rsmini: a parser + evaluator for the tiny Rust subset in which the crate writes its finite tables
(`match` on enum values / small integers with `|` patterns and `_`, nested matches, blocks with
`println!` / `assert!` / `debug_assert!` / `let`, integer expressions with casts, calls to other such
functions).  Used by rs2lean.py to *tabulate* those functions over their finite domains; the Lean side then
proves that the hand-written model equals the table, so the model is tied to the source text by a theorem
re-checked on every run.

Values: Python ints, enum values as ("E", name), tuples ("parts", b, i, j), None for `None`, ("some", v).
A `panic!`/`unreachable!`/failed assert raises Panic.  Anything outside the subset raises TranslateError (imported
lazily from rs2lean to avoid a cycle).
"""


class Panic(Exception):
    pass


class MiniError(Exception):
    pass


WINDS = ["S", "SE", "E", "SW", "C", "NE", "W", "NW", "N"]

INT_TYPES = {"u8": (0, 8), "u16": (0, 16), "u32": (0, 32), "u64": (0, 64), "usize": (0, 64),
             "i8": (1, 8), "i16": (1, 16), "i32": (1, 32), "i64": (1, 64)}


def wrap(v, ty):
    signed, bits = INT_TYPES[ty]
    v &= (1 << bits) - 1
    if signed and v >> (bits - 1):
        v -= 1 << bits
    return v


class Parser:
    def __init__(self, toks):
        self.t = toks
        self.p = 0

    def peek(self, k=0):
        return self.t[self.p + k] if self.p + k < len(self.t) else ("eof", "")

    def next(self):
        tok = self.peek()
        self.p += 1
        return tok

    def accept(self, v):
        if self.peek()[1] == v:
            self.p += 1
            return True
        return False

    def expect(self, v):
        tok = self.next()
        if tok[1] != v:
            raise MiniError("expected %r, got %r (near %r)" % (v, tok[1], [x[1] for x in self.t[max(0, self.p - 6):self.p + 4]]))

    # ---- fn
    def parse_fn(self):
        """fn name(params) -> T { body } ; returns (name, [param names], body)"""
        while self.peek()[1] != "fn":
            self.next()
        self.expect("fn")
        name = self.next()[1]
        self.expect("(")
        params = []
        depth = 1
        cur = []
        while depth > 0:
            k, v = self.next()
            if v == "(":
                depth += 1
            elif v == ")":
                depth -= 1
                if depth == 0:
                    break
            if v == "," and depth == 1:
                params.append(cur)
                cur = []
            else:
                cur.append(v)
        if cur:
            params.append(cur)
        names = []
        for pr in params:
            pr = [x for x in pr if x not in ("&", "mut")]
            if pr and pr[0] == "self":
                names.append("self")
            elif pr:
                names.append(pr[0])
        # return type
        while self.peek()[1] != "{":
            self.next()
        body = self.parse_block()
        return name, names, body

    # ---- blocks and statements
    def parse_block(self):
        self.expect("{")
        stmts = []
        result = None
        while not self.accept("}"):
            k, v = self.peek()
            if v == "let":
                self.next()
                self.accept("mut")
                name = self.next()[1]
                if self.accept(":"):
                    while self.peek()[1] != "=":
                        self.next()
                self.expect("=")
                e = self.parse_expr()
                self.expect(";")
                stmts.append(("let", name, e))
                continue
            if v in ("println", "print", "eprintln") and self.peek(1)[1] == "!":
                self.next(); self.next()
                self.skip_parens()
                self.accept(";")
                continue
            if v in ("assert", "debug_assert") and self.peek(1)[1] == "!":
                self.next(); self.next()
                self.expect("(")
                c = self.parse_expr()
                # optional message arguments
                depth = 1
                while depth > 0:
                    k2, v2 = self.next()
                    if v2 == "(":
                        depth += 1
                    elif v2 == ")":
                        depth -= 1
                self.accept(";")
                stmts.append(("assert", v, c))
                continue
            # attribute on a statement (`#[cfg(..)] stmt;`): the statement is a verification hook or a lint: skipped
            if v == "#":
                self.next()
                self.expect("[")
                d = 1
                while d > 0:
                    k2, v2 = self.next()
                    if v2 == "[":
                        d += 1
                    elif v2 == "]":
                        d -= 1
                while self.next()[1] != ";":
                    pass
                continue
            # plain assignment `x = expr;` to a `let mut` variable of an enclosing block
            if k == "id" and self.peek(1)[1] == "=" and self.peek(1)[0] == "op":
                name = self.next()[1]
                self.next()
                e = self.parse_expr()
                self.expect(";")
                stmts.append(("assign", name, e))
                continue
            # compound assignment `i += expr;`
            if k == "id" and self.peek(1)[1] in ("+=", "-=", "|=", "&="):
                name = self.next()[1]
                op = self.next()[1][0]
                e = self.parse_expr()
                self.expect(";")
                stmts.append(("let", name, ("bin", op, ("var", name), e)))
                continue
            e = self.parse_expr()
            if self.accept(";"):
                stmts.append(("expr", e))
            elif e[0] in ("if", "match", "block") and self.peek()[1] != "}":
                stmts.append(("expr", e))       # block-like expression used as a statement
            else:
                result = e
                self.expect("}")
                break
        return ("block", stmts, result)

    def skip_parens(self):
        self.expect("(")
        depth = 1
        while depth > 0:
            k, v = self.next()
            if v == "(":
                depth += 1
            elif v == ")":
                depth -= 1

    # ---- expressions (precedence climbing)
    PREC = [["||"], ["&&"], ["==", "!=", "<", "<=", ">", ">="], ["|"], ["^"], ["&"], ["<<", ">>"], ["+", "-"], ["*", "/", "%"]]

    def parse_expr(self, level=0):
        if level == len(self.PREC):
            return self.parse_cast()
        lhs = self.parse_expr(level + 1)
        while self.peek()[1] in self.PREC[level] and self.peek()[0] == "op":
            op = self.next()[1]
            rhs = self.parse_expr(level + 1)
            lhs = ("bin", op, lhs, rhs)
        return lhs

    def parse_cast(self):
        e = self.parse_unary()
        while self.peek()[1] == "as":
            self.next()
            ty = self.next()[1]
            e = ("cast", e, ty)
        return e

    def parse_unary(self):
        k, v = self.peek()
        if v in ("*", "&"):
            self.next()
            self.accept("mut")
            return self.parse_unary()
        if v == "-":
            self.next()
            return ("neg", self.parse_unary())
        if v == "!":
            self.next()
            return ("not", self.parse_unary())
        return self.parse_postfix()

    def parse_postfix(self):
        e = self.parse_atom()
        while True:
            if self.peek()[1] == "." and self.peek(1)[0] == "id":
                self.next()
                name = self.next()[1]
                if self.peek()[1] == "(":
                    args = self.parse_args()
                    e = ("method", e, name, args)
                else:
                    e = ("field", e, name)
            else:
                return e

    def parse_args(self):
        self.expect("(")
        args = []
        if self.accept(")"):
            return args
        while True:
            args.append(self.parse_expr())
            if self.accept(")"):
                return args
            self.expect(",")
            if self.accept(")"):
                return args

    def parse_atom(self):
        k, v = self.next()
        if k == "num":
            t = v.replace("_", "")
            ty = None
            import re
            m = re.search(r"([iu](?:8|16|32|64|size))$", t)
            if m:
                ty = m.group(1)
                t = t[:m.start()]
            val = int(t, 16) if t.lower().startswith("0x") else int(t)
            return ("int", val, ty)
        if v == "(":
            e = self.parse_expr()
            self.expect(")")
            return e
        if v == "{":
            self.p -= 1
            return self.parse_block()
        if v == "match":
            scrut = self.parse_expr_no_struct()
            self.expect("{")
            arms = []
            while not self.accept("}"):
                pats = [self.parse_pattern()]
                while self.accept("|"):
                    pats.append(self.parse_pattern())
                self.expect("=>")
                body = self.parse_expr()
                self.accept(",")
                arms.append((pats, body))
            return ("match", scrut, arms)
        if v == "if":
            c = self.parse_expr_no_struct()
            th = self.parse_block()
            el = None
            if self.accept("else"):
                if self.peek()[1] == "if":
                    el = self.parse_atom()
                else:
                    el = self.parse_block()
            return ("if", c, th, el)
        if k == "id":
            # macro
            if self.peek()[1] == "!":
                self.next()
                self.skip_parens()
                if v in ("panic", "unreachable", "unimplemented", "todo"):
                    return ("panic", v)
                raise MiniError("macro %s! not supported" % v)
            # path a::b::c
            path = [v]
            while self.peek()[1] == "::":
                self.next()
                path.append(self.next()[1])
            name = path[-1]
            if self.peek()[1] == "(":
                args = self.parse_args()
                return ("call", name, args)
            if self.peek()[1] == "{" and name in getattr(self, "struct_names", ()):
                self.next()
                fields = []
                while not self.accept("}"):
                    fname = self.next()[1]
                    if self.accept(":"):
                        if fname in getattr(self, "skip_fields", ()):
                            d = 0
                            while not (d == 0 and self.peek()[1] in (",", "}")):
                                v3 = self.next()[1]
                                if v3 in "([{":
                                    d += 1
                                elif v3 in ")]}":
                                    d -= 1
                        else:
                            fields.append((fname, self.parse_expr()))
                    else:
                        fields.append((fname, ("var", fname)))
                    self.accept(",")
                return ("struct", name, fields)
            return ("var", name)
        raise MiniError("unexpected token %r" % (v,))

    def parse_expr_no_struct(self):
        return self.parse_expr()

    def parse_pattern(self):
        k, v = self.next()
        if v == "_":
            return ("wild",)
        if k == "num":
            import re
            t = re.sub(r"_?[iu](?:8|16|32|64|size)$", "", v.replace("_", ""))
            return ("int", int(t, 16) if t.lower().startswith("0x") else int(t))
        if v == "-":
            k2, v2 = self.next()
            return ("int", -int(v2.replace("_", "").rstrip("iu8163264")))
        if k == "id":
            path = [v]
            while self.peek()[1] == "::":
                self.next()
                path.append(self.next()[1])
            if path[-1] == "Some" and self.peek()[1] == "(":
                self.next()
                k2, v2 = self.next()
                if k2 != "id":
                    raise MiniError("unsupported pattern Some(%r)" % (v2,))
                self.expect(")")
                return ("somebind", v2)
            return ("enum", path[-1])
        raise MiniError("unsupported pattern %r" % (v,))


class Interp:
    """`fns`: name -> (params, body).  Enum values are ("E", name).  `self_val` is the value of `self`/`*self`."""

    def __init__(self, fns, enum_names, methods=None):
        self.fns = fns
        self.enum_names = set(enum_names)
        self.methods = methods or {}

    def call(self, name, args):
        if name not in self.fns:
            raise MiniError("call to unknown function %s" % name)
        params, body = self.fns[name]
        ps = [p for p in params]
        env = {}
        if len(ps) != len(args):
            raise MiniError("arity mismatch calling %s" % name)
        for p, a in zip(ps, args):
            env[p] = a
        return self.ev(body, env)

    def ev(self, e, env):
        k = e[0]
        if k == "int":
            return e[1]
        if k == "var":
            n = e[1]
            if n in env:
                return env[n]
            if n in self.enum_names:
                return ("E", n)
            if n == "None":
                return None
            if n in ("true", "false"):
                return n == "true"
            raise MiniError("unbound variable %s" % n)
        if k == "struct":
            return ("struct", e[1], {f: self.ev(x, env) for f, x in e[2]})
        if k == "block":
            import collections
            env = env.new_child() if isinstance(env, collections.ChainMap) else collections.ChainMap({}, env)
            for s in e[1]:
                if s[0] == "let":
                    env[s[1]] = self.ev(s[2], env)
                elif s[0] == "assign":
                    val = self.ev(s[2], env)
                    for m in env.maps:
                        if s[1] in m:
                            m[s[1]] = val
                            break
                    else:
                        raise MiniError("assignment to unbound variable %s" % s[1])
                elif s[0] == "assert":
                    if not self.ev(s[2], env):
                        # debug_assert! failures are panics in the dev profile; the tables describe the dev profile
                        raise Panic(s[1])
                elif s[0] == "expr":
                    self.ev(s[1], env)
            return self.ev(e[2], env) if e[2] is not None else ()
        if k == "panic":
            raise Panic(e[1])
        if k == "neg":
            return -self.ev(e[1], env)
        if k == "not":
            v = self.ev(e[1], env)
            return (not v) if isinstance(v, bool) else ~v
        if k == "cast":
            v = self.ev(e[1], env)
            if e[2] in INT_TYPES and isinstance(v, int):
                return wrap(v, e[2])
            return v
        if k == "bin":
            op = e[1]
            if op == "||":
                return bool(self.ev(e[2], env)) or bool(self.ev(e[3], env))
            if op == "&&":
                return bool(self.ev(e[2], env)) and bool(self.ev(e[3], env))
            a = self.ev(e[2], env)
            b = self.ev(e[3], env)
            if op == "==":
                return a == b
            if op == "!=":
                return a != b
            if not (isinstance(a, int) and isinstance(b, int)):
                raise MiniError("arithmetic on non-integers: %r %s %r" % (a, op, b))
            if op == "<":
                return a < b
            if op == "<=":
                return a <= b
            if op == ">":
                return a > b
            if op == ">=":
                return a >= b
            if op == "|":
                return a | b
            if op == "&":
                return a & b
            if op == "^":
                return a ^ b
            if op == "<<":
                if b < 0 or b >= 64:
                    raise Panic("shift left by %d bits overflows" % b)
                return a << b
            if op == ">>":
                if b < 0 or b >= 64:
                    raise Panic("shift right by %d bits overflows" % b)
                return a >> b
            if op == "+":
                return a + b
            if op == "-":
                if getattr(self, "unsigned", False) and a - b < 0:
                    raise Panic("attempt to subtract with overflow")
                return a - b
            if op == "*":
                return a * b
            raise MiniError("operator %s not supported" % op)
        if k == "if":
            if self.ev(e[1], env):
                return self.ev(e[2], env)
            return self.ev(e[3], env) if e[3] is not None else ()
        if k == "match":
            v = self.ev(e[1], env)
            for pats, body in e[2]:
                for p in pats:
                    if p[0] == "wild" or (p[0] == "int" and v == p[1]) or (p[0] == "enum" and v == ("E", p[1])):
                        return self.ev(body, env)
                    if p[0] == "enum" and p[1] == "None" and v is None:
                        return self.ev(body, env)
                    if p[0] == "somebind" and isinstance(v, tuple) and len(v) == 2 and v[0] == "some":
                        env2 = dict(env)
                        env2[p[1]] = v[1]
                        return self.ev(body, env2)
            raise MiniError("non-exhaustive match on %r" % (v,))
        if k == "call":
            name = e[1]
            args = [self.ev(a, env) for a in e[2]]
            if name == "Some":
                return ("some", args[0])
            if name == "format":
                return ""
            return self.call(name, args)
        if k == "method":
            recv = e[1]
            name = e[2]
            args = [self.ev(a, env) for a in e[3]]
            if recv == ("var", "self") and name == "build_hash_from_parts_opt":
                return ("parts",) + tuple(args)
            rv = self.ev(recv, env)
            if name in self.methods:
                return self.methods[name](rv, *args)
            if name in self.fns and self.fns[name][0][:1] == ["self"]:
                return self.call(name, [rv] + args)
            raise MiniError("unknown method %s" % name)
        if k == "field":
            rv = e[1]
            if rv == ("var", "self") and e[2] in getattr(self, "fields", {}):
                return self.fields[e[2]]
            raise MiniError("unknown field %r" % (e,))
        raise MiniError("cannot evaluate %r" % (k,))


def parse_fn_text(text, tokenize):
    p = Parser(tokenize(text))
    return p.parse_fn()
