#!/usr/bin/env python3
"""Regenerate /verif/MANIFEST.json from checklib/props.py (single source for what is claimed)."""
import json, os, sys
ROOT = os.path.dirname(os.path.dirname(os.path.abspath(__file__)))
sys.path.insert(0, os.path.join(ROOT, "checklib"))
from props import PROPS, NOT_CLAIMED, HOOK_COMMITS

checks = []
for pid in sorted(PROPS):
    p = PROPS[pid]
    checks.append({
        "property_id": pid,
        "quick_cmd": "./check %s --tier quick" % pid,
        "thorough_cmd": "./check %s --tier thorough" % pid,
        "evidence_file": "/verif/evidence/%s.json" % pid,
        "replay_cmd_template": "./check %s --replay {path}" % pid,
        "engine": "lean4-proof+correspondence",
        "level_claimed": {"category": p.get("level", "proof"), "text": p["claim"], "design_ref": "DESIGN.md section 5, %s" % pid},
        "level_note": p["note"],
        "technique": p.get("technique", "Lean 4 machine-checked proof about a model tied to the code by translator + differential correspondence"),
    })
m = {
    "version": 1,
    "setup_cmd": "./setup.sh",
    "hooks": {
        "guard": "cdshealpix_verif",
        "enable": "RUSTFLAGS=--cfg cdshealpix_verif (set by /verif/harness/.cargo/config.toml; the harness depends on /repo by path, so the flag reaches the library)",
        "baseline_off_cmd": "cd /repo && cargo test --workspace --no-fail-fast --offline",
        "source_commits": HOOK_COMMITS,
        "add_only": True,
    },
    "engines": [{
        "name": "lean4-proof+correspondence", "path": "/verif/check", "serves_properties": sorted(PROPS),
        "kind_free_text": "Lean 4 theorems (kernel-checked, axioms audited on every run) about a model that is partly regenerated from the source by translator/rs2lean.py and partly hand-written and tied to the code by a bit-exact differential correspondence check (Rust harness calling the crate in-process vs compiled Lean driver); property oracles on the implementation search for failing inputs",
    }],
    "checks": checks,
    "notes": "See DESIGN.md. known_findings.json lists repaired defects (fixed:) and recorded ones (known).",
    "not_applicable": [{"property_id": k, "reason": v} for k, v in sorted(NOT_CLAIMED.items()) if k not in PROPS],
}
json.dump(m, open(os.path.join(ROOT, "MANIFEST.json"), "w"), indent=1)
print("MANIFEST.json: %d checks, %d not claimed" % (len(checks), len(m["not_applicable"])))
