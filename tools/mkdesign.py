#!/usr/bin/env python3
"""Rewrites the block between the AUTO markers of DESIGN.md from evidence/*.json and checklib/props.py
(theorem names actually checked on the last run, open statements, correspondence volume)."""
import json, os, re, sys
ROOT = os.path.dirname(os.path.dirname(os.path.abspath(__file__)))
sys.path.insert(0, ROOT)
from checklib.props import PROPS

def main():
    rows = ["| id | theorems checked by the kernel on the last run (`Props/Cxx.lean`) | stated, not proved (open) | requests compared per quick run | oracle evaluations |", "|---|---|---|---|---|"]
    for pid in sorted(PROPS):
        p = os.path.join(ROOT, "evidence", pid + ".json")
        if not os.path.exists(p):
            continue
        ev = json.load(open(p))
        cov = ev["coverage"]
        th = ", ".join("`%s`" % t.split(".")[-1] for t in cov.get("theorems", []))
        op = "; ".join(cov.get("open_statements", [])) or "-"
        rows.append("| %s | %d: %s | %s | %s | %s |" % (pid, cov.get("discharged", 0), th, op, cov.get("evaluations", "-"), cov.get("oracle_evaluations", "-")))
    block = "\n".join(rows)
    path = os.path.join(ROOT, "DESIGN.md")
    s = open(path).read()
    b, e = "<!-- BEGIN AUTO theorems -->", "<!-- END AUTO theorems -->"
    i, j = s.index(b), s.index(e)
    s = s[:i + len(b)] + "\n" + block + "\n" + s[j:]
    # seeded-change table
    b2, e2 = "<!-- BEGIN AUTO seeded -->", "<!-- END AUTO seeded -->"
    if b2 in s and e2 in s:
        import subprocess
        tbl = subprocess.run([sys.executable, os.path.join(ROOT, "tools", "seeded.py"), "table"], stdout=subprocess.PIPE,
                             universal_newlines=True).stdout.strip()
        i2, j2 = s.index(b2), s.index(e2)
        s = s[:i2 + len(b2)] + "\n" + tbl + "\n" + s[j2:]
    open(path, "w").write(s)
    print("DESIGN.md: theorem table rewritten (%d properties)" % (len(rows) - 2))

if __name__ == "__main__":
    main()
