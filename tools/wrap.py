#!/usr/bin/env python3
"""tools/wrap.py <lemma file> <qualified namespace of the lemmas> <opens> name[=newname] ...
Prints Props-style wrappers: the statement of each lemma copied verbatim (so that it stays visible in Props/Cxx.lean and
is re-checked there against the lemma it rests on), proved by applying the lemma to its explicit arguments."""
import re, sys

def split_binders(sig):
    """sig = text between the theorem name and the top-level ':' of the statement; returns (binder groups, rest)"""
    groups = []
    i = 0
    n = len(sig)
    while i < n:
        while i < n and sig[i].isspace():
            i += 1
        if i >= n or sig[i] not in "({[":
            break
        op = sig[i]
        cl = {"(": ")", "{": "}", "[": "]"}[op]
        depth = 0
        j = i
        while j < n:
            if sig[j] in "({[⟨":
                depth += 1
            elif sig[j] in ")}]⟩":
                depth -= 1
                if depth == 0:
                    break
            j += 1
        groups.append(sig[i:j + 1])
        i = j + 1
    return groups, sig[i:]

def main():
    path, ns, opens = sys.argv[1], sys.argv[2], sys.argv[3]
    src = open(path, encoding="utf-8").read()
    for spec in sys.argv[4:]:
        name, _, new = spec.partition("=")
        new = new or name
        m = re.search(r"(?:/--(?:(?!-/).)*-/\s*)?^theorem %s\b" % re.escape(name), src, re.S | re.M)
        if not m:
            sys.exit("theorem %s not found in %s" % (name, path))
        start = src.index("theorem " + name, m.start())
        end = src.index(":= by", start) if ":= by" in src[start:start + 6000] else None
        e2 = src.find(":=\n", start)
        cands = [x for x in (end, e2 if e2 >= 0 else None) if x is not None]
        # the first ':=' at bracket depth 0
        depth = 0
        k = start
        while k < len(src):
            c = src[k]
            if c in "({[⟨":
                depth += 1
            elif c in ")}]⟩":
                depth -= 1
            elif depth == 0 and src.startswith(":=", k):
                if not re.search(r"\blet\s+\w+(\s*:\s*[^:=\n]*)?\s*$", src[start:k]):
                    break
            k += 1
        body = src[start + len("theorem " + name):k]
        groups, rest = split_binders(body)
        args = []
        for g in groups:
            if g[0] != "(":
                continue
            inner = g[1:-1]
            names = inner.split(":", 1)[0].split()
            args += names
        doc = ""
        dm = re.search(r"/--((?:(?!-/).)*)-/\s*$", src[:start], re.S)
        if dm and src[:start].rstrip().endswith("-/"):
            doc = "/--" + dm.group(1) + "-/\n"
        print("open %s in" % opens)
        print("%stheorem %s%s:=\n  %s.%s %s\n" % (doc, new, body, ns, name, " ".join(args)))

if __name__ == "__main__":
    main()
