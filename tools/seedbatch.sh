#!/bin/sh
# tools/seedbatch.sh C03_4 C13_4 ...   import from /tmp/seedwt_<id>/seed_out, confirm in a scratch worktree, run the property's quick check, clean up
cd "$(dirname "$0")/.."
for id in "$@"; do
  wt=/tmp/seedwt_$id
  if [ ! -f $wt/seed_out/patch.diff ]; then echo "$id: no seed_out/patch.diff"; continue; fi
  python3 tools/seeded.py import $wt/seed_out $id
  python3 tools/seeded.py confirm $id | tail -12
  if python3 -c "import json,sys; sys.exit(0 if json.load(open('seeded/$id/confirm.json')).get('confirmed') else 1)"; then
    python3 tools/seeded.py run $id --tier quick | tail -1
  else
    echo "$id: NOT CONFIRMED"
  fi
  git -C /repo worktree remove --force $wt 2>/dev/null; rm -rf $wt
done
