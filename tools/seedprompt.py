#!/usr/bin/env python3
"""tools/seedprompt.py <Cxx> <k>  -> writes /var/tmp/seedprompts/<Cxx>_<k>.txt (prompt for a seeding sub-agent that sees only the
property text and its own scratch worktree /tmp/seedwt_<Cxx>_<k>) and prints the path.  Ideas already used are taken
from seeded/<Cxx>_*/meta.json titles."""
import json, sys, os, glob
ROOT = os.path.dirname(os.path.dirname(os.path.abspath(__file__)))
pid, k = sys.argv[1], int(sys.argv[2])
prop = [json.loads(l) for l in open(os.path.join(ROOT, "properties.jsonl")) if json.loads(l)["id"] == pid][0]
used = []
for d in sorted(glob.glob(os.path.join(ROOT, "seeded", pid + "_*"))):
    try:
        m = json.load(open(os.path.join(d, "meta.json")))
        used.append(m.get("title") or m.get("description", "")[:160])
    except Exception:
        pass
wt = "/tmp/seedwt_%s_%d" % (pid, k)
conc = pid == "C20"
txt = f"""You are helping to evaluate a verification framework for the Rust crate `cdshealpix` (HEALPix sphere tessellation). Your job is to play the role of a realistic, subtle bug: produce ONE small change to the crate that BREAKS the semantic property below while the crate still compiles and its existing test-suite still passes.

Your working copy is a scratch git worktree of the crate at `{wt}` (already created; work ONLY there; never touch /repo or /verif, and do not look into /verif). Build/test offline: `cd {wt} && CARGO_NET_OFFLINE=true cargo test --offline --lib` (63 tests must pass, unedited). Use `CARGO_TARGET_DIR={wt}/target`.

## The property (id {pid})
Title: {prop['title']}
Statement: {prop['statement']}
Quantifier: {json.dumps(prop['quantifier'])}
Why tests can't settle it: {prop['why_tests_cant']}
Anchors in the code: {json.dumps(prop['anchors'])}

## What to produce
1. A change (at most ~15 changed lines, in `src/` only, no test edits, no new dependencies, no cfg tricks) that a maintainer could plausibly make by mistake or as a "harmless" optimisation/refactor, and that makes the property FALSE for some inputs/schedules. It must need something SPECIFIC to manifest: an unusual input class, a particular depth or nside, a rare branch, a multi-step sequence of operations, a particular interleaving, one build profile (debug vs release), or two cooperating sites that each look fine alone. NOT something that ordinary use would expose at once (if a random input hits it with probability above ~1%, it is too easy - make it rarer), and not something the existing tests catch.
   Ideas already used by others for this property (do something DIFFERENT, in a different function or branch if possible): {json.dumps(used)}
2. A demonstration: a small standalone program `demo.rs` (it will be copied to `examples/demo.rs` of the crate and run with `cargo run --offline [--release] --example demo`) using only the crate's public API (and std), which checks the property on a concrete input directly from the property's definition (with an independent oracle written in the demo, not by comparing with hard-coded expected output of the unmodified code where avoidable), and prints a line containing `PROPERTY-BROKEN` when the property is violated and `PROPERTY-HOLDS` otherwise. It must print PROPERTY-BROKEN with your change applied and PROPERTY-HOLDS on the unmodified crate. A panic where the property demands a panic is fine; an unexpected panic counts as broken only if the property forbids it.{" For a concurrency property the demo may use threads and the crate's `--cfg cdshealpix_verif` hooks in `src/verif_hooks.rs` if needed (then say so in meta.json with 'needs_hooks': true)." if conc else ""}
3. Verify all of it yourself: (a) with the change: `cargo test --offline --lib` passes all 63 tests; the demo prints PROPERTY-BROKEN (state the profile: debug, release or both); (b) without the change (save it first with `git diff -- src > /tmp/{pid}_{k}_change.diff`, then `git checkout -- src`; do NOT use `git stash`: the stash is shared with other worktrees of the same repository): demo prints PROPERTY-HOLDS; then re-apply with `git apply /tmp/{pid}_{k}_change.diff`.
4. Leave in `{wt}/seed_out/`: `patch.diff` (output of `git diff -- src` with the change applied; must apply with `git apply` on the unmodified tree), `demo.rs`, `demo_output.txt` (both outputs), and `meta.json` with fields: "property": "{pid}", "k": {k}, "title" (one line), "files", "description" (what was changed and why it is plausible), "manifests_when" (exactly what is needed for it to show), "failing_input" (the concrete input/history of the demo), "profile" ("debug" | "release" | "both"), "tests_pass": true, "estimated_random_hit_rate".
   Leave the worktree with the change APPLIED to src/ (the coordinator will re-verify), and delete `{wt}/target` when you are done to save disk.

Be careful and honest: if you cannot find a change meeting all the constraints, say so rather than handing in something that fails one of them. Your final message: a 10-line summary (the change, when it manifests, what you verified)."""
os.makedirs("/var/tmp/seedprompts", exist_ok=True)
out = "/var/tmp/seedprompts/%s_%d.txt" % (pid, k)
open(out, "w").write(txt)
print(out)
