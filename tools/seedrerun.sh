#!/bin/sh
# tools/seedrerun.sh [ids...]   re-run every stored seeded change (or the given ones) against the current checks: apply, quick check, undo
cd "$(dirname "$0")/.."
ids="$@"
[ -z "$ids" ] && ids=$(ls seeded | sort)
for id in $ids; do
  [ -f seeded/$id/patch.diff ] || continue
  if ! git -C /repo apply --check "$(pwd)/seeded/$id/patch.diff" 2>/dev/null; then echo "$id PATCH-DOES-NOT-APPLY"; continue; fi
  python3 tools/seeded.py run $id --tier quick 2>&1 | tail -1
  git -C /repo checkout -- . 2>/dev/null
done
