#!/usr/bin/env python3
"""Seeded-change bookkeeping.

  tools/seeded.py import <srcdir> <id>     copy patch.diff / demo.rs / demo_output.txt / meta.json into seeded/<id>/
  tools/seeded.py confirm <id>             scratch worktree of /repo: apply, run the 63 tests, run the demo (must print PROPERTY-BROKEN)
  tools/seeded.py run <id> [--tier quick|thorough] [--props C01,C02]
                                           git -C /repo apply; ./check <property>; git -C /repo checkout -- .; result.json
  tools/seeded.py table                    markdown table of all results

The patches are applied to /repo's working tree only for the duration of a run and are never committed there.
"""
import json, os, re, shutil, subprocess, sys, time
ROOT = os.path.dirname(os.path.dirname(os.path.abspath(__file__)))
REPO = "/repo"
SEED = os.path.join(ROOT, "seeded")

def sh(cmd, cwd=None, timeout=3600, env=None):
    e = dict(os.environ); e["CARGO_NET_OFFLINE"] = "true"
    if env: e.update(env)
    p = subprocess.run(cmd, shell=True, cwd=cwd, stdout=subprocess.PIPE, stderr=subprocess.STDOUT, text=True, timeout=timeout, env=e)
    return p.returncode, p.stdout

def do_import(src, sid):
    dst = os.path.join(SEED, sid); os.makedirs(dst, exist_ok=True)
    for f in ("patch.diff", "demo.rs", "demo_output.txt", "meta.json"):
        if os.path.exists(os.path.join(src, f)):
            shutil.copy(os.path.join(src, f), os.path.join(dst, f))
    print("imported", sid)

def do_confirm(sid):
    d = os.path.join(SEED, sid)
    meta = json.load(open(os.path.join(d, "meta.json")))
    wt = "/tmp/seedconfirm_" + sid
    sh("git -C %s worktree remove --force %s" % (REPO, wt))
    rc, out = sh("git -C %s worktree add --detach %s HEAD" % (REPO, wt))
    res = {"id": sid}
    try:
        rc, out = sh("git apply %s" % os.path.join(d, "patch.diff"), cwd=wt)
        res["applies"] = rc == 0
        env = {"CARGO_TARGET_DIR": wt + "/target"}
        if meta.get("property") == "C20":
            env["RUSTFLAGS"] = "--cfg cdshealpix_verif"   # the demos observe through the crate's own verification hooks
        rc, out = sh("cargo test --offline --lib 2>&1 | tail -5", cwd=wt, env=env)
        m = re.search(r"test result: (\w+)\. (\d+) passed; (\d+) failed", out)
        res["tests"] = m.group(0) if m else out[-300:]
        res["tests_pass"] = bool(m and m.group(1) == "ok" and int(m.group(2)) >= 63)
        os.makedirs(wt + "/examples", exist_ok=True)
        shutil.copy(os.path.join(d, "demo.rs"), wt + "/examples/demo.rs")
        prof = meta.get("profile", "both")
        flag = "--release" if prof == "release" else ""
        if "miri" in json.dumps(meta).lower() and meta.get("property") == "C20" and meta.get("needs_miri"):
            rc, out = sh("cargo +nightly miri run --offline --example demo 2>&1 | tail -30", cwd=wt, env=env, timeout=1800)
        else:
            rc, out = sh("cargo run --offline %s --example demo 2>&1 | grep -E 'PROPERTY-|panicked' | sort -u | grep -E 'PROPERTY-' | head -5" % flag, cwd=wt, env=env)
        res["demo_mutated"] = out.strip()[:600]
        sh("git checkout -- . ", cwd=wt)
        rc, out = sh("cargo run --offline %s --example demo 2>&1 | grep -E 'PROPERTY-|panicked' | head -5" % flag, cwd=wt, env=env)
        res["demo_clean"] = out.strip()[:600]
        res["confirmed"] = res["applies"] and res["tests_pass"] and "PROPERTY-BROKEN" in res["demo_mutated"] and "PROPERTY-BROKEN" not in res["demo_clean"]
    finally:
        sh("git -C %s worktree remove --force %s" % (REPO, wt)); shutil.rmtree(wt, ignore_errors=True)
    json.dump(res, open(os.path.join(d, "confirm.json"), "w"), indent=1)
    print(json.dumps(res, indent=1))

def do_run(sid, tier, props):
    d = os.path.join(SEED, sid)
    meta = json.load(open(os.path.join(d, "meta.json")))
    props = props or [meta["property"]]
    rc, out = sh("git -C %s status --porcelain --untracked-files=no" % REPO)
    if out.strip():
        print("refusing: /repo has tracked modifications:\n" + out); sys.exit(2)
    rc, out = sh("git -C %s apply %s" % (REPO, os.path.join(d, "patch.diff")))
    if rc != 0:
        print("patch does not apply:", out); sys.exit(2)
    results = {}
    try:
        for p in props:
            t0 = time.time()
            rc, out = sh("./check %s --tier %s" % (p, tier), cwd=ROOT, timeout=7200)
            viol = [l for l in out.splitlines() if l.startswith("VIOLATION")]
            ev = {}
            try: ev = json.load(open(os.path.join(ROOT, "evidence", p + ".json")))
            except Exception: pass
            rep = None
            m = re.search(r"replay=(\S+)", viol[0]) if viol else None
            how = None
            if m:
                rp = os.path.join(ROOT, m.group(1)) if not m.group(1).startswith("/") else m.group(1)
                try:
                    rep = json.load(open(rp))
                    how = rep.get("how") or rep.get("kind")
                except Exception: pass
            results[p] = {"exit": rc, "violation_lines": viol[:5], "tier": tier, "wall_s": round(time.time() - t0, 1),
                          "summary": out.strip().splitlines()[-1][:400] if out.strip() else "",
                          "replay_head": (json.dumps(rep)[:1500] if rep else None)}
    finally:
        sh("git -C %s checkout -- ." % REPO)
        sh("git checkout -- evidence", cwd=ROOT)
    path = os.path.join(d, "result.json")
    old = json.load(open(path)) if os.path.exists(path) else {}
    for p, r in results.items():
        old.setdefault(p, {})[tier] = r
    json.dump(old, open(path, "w"), indent=1)
    for p, r in results.items():
        print(sid, p, tier, "CAUGHT" if r["exit"] == 1 and r["violation_lines"] else ("BROKEN-CHECK rc=%d" % r["exit"] if r["exit"] not in (0, 1) else "missed"), r["violation_lines"][:1])

def describe_how(r):
    """short description of what raised the alarm, from the head of the replay file"""
    h = r.get("replay_head") or ""
    parts = []
    m = re.search(r'"no_longer_checks": \{"what": "([^"]+)"(?:, "theorem": "([^"]*)")?', h)
    kinds = re.findall(r'"what": "([a-z-]+)"', h)
    if "translator" in kinds: parts.append("translator: source outside the grammar / table changed")
    if "lean-proof" in kinds:
        mt = re.search(r'"what": "lean-proof", "theorem": "([^"]*)"', h)
        parts.append("proof obligation broken%s" % ((" (" + mt.group(1).split("(")[-1].rstrip(")") + ")") if mt and mt.group(1) else ""))
    if "correspondence" in kinds: parts.append("model and code disagree")
    mk = re.search(r'"failing_input": \{"kind": "([^"]+)"', h)
    if mk: parts.append("oracle on the implementation: " + mk.group(1))
    if "no-failing-input-found" in " ".join(r.get("violation_lines", [])): parts.append("no failing input found")
    ms = re.search(r'"model_side_search": "([^"]{0,120})', h)
    if ms and "bad" in ms.group(1): parts.append("model-side history found")
    return "; ".join(parts)

def do_table():
    rows = ["| id | property | change | manifests when | caught by | how |", "|---|---|---|---|---|---|"]
    for sid in sorted(os.listdir(SEED)):
        d = os.path.join(SEED, sid)
        if not os.path.exists(os.path.join(d, "meta.json")): continue
        meta = json.load(open(os.path.join(d, "meta.json")))
        res = json.load(open(os.path.join(d, "result.json"))) if os.path.exists(os.path.join(d, "result.json")) else {}
        caught = []
        how = ""
        for p, tiers in res.items():
            for t, r in tiers.items():
                if r["exit"] == 1 and r["violation_lines"]:
                    caught.append("%s %s" % (p, t))
                    if not how: how = describe_how(r)
        rows.append("| %s | %s | %s | %s | %s | %s |" % (sid, meta.get("property"), str(meta.get("title", "")).replace("|", "/")[:140], str(meta.get("manifests_when", "")).replace("|", "/")[:160], ", ".join(caught) or "**missed**", how))
    print("\n".join(rows))

if __name__ == "__main__":
    a = sys.argv[1:]
    if not a: print(__doc__); sys.exit(0)
    if a[0] == "import": do_import(a[1], a[2])
    elif a[0] == "confirm": do_confirm(a[1])
    elif a[0] == "run":
        tier = "quick"; props = None
        if "--tier" in a: tier = a[a.index("--tier") + 1]
        if "--props" in a: props = a[a.index("--props") + 1].split(",")
        do_run(a[1], tier, props)
    elif a[0] == "table": do_table()
